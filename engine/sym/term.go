// Package sym: hash-consed bit-vector/bool terms with local simplification and SMT-LIB2 printing.
package sym

import (
	"fmt"
	"strings"
)

// Term is an immutable, hash-consed term. W==0 means Bool, otherwise a bit-vector of width W (<=64).
type Term struct {
	ID   int
	Op   string
	W    int
	Val  uint64 // const value (masked)
	Name string // var / uf name
	Args []*Term
	P1   int
	P2   int
}

type termKey struct {
	op         string
	w          int
	val        uint64
	name       string
	p1, p2     int
	a0, a1, a2 int
	n          int
}

type Ctx struct {
	tab   map[termKey]*Term
	next  int
	Terms []*Term
}

func NewCtx() *Ctx { return &Ctx{tab: map[termKey]*Term{}} }

func mask(w int) uint64 {
	if w >= 64 {
		return ^uint64(0)
	}
	return (uint64(1) << uint(w)) - 1
}

func (c *Ctx) mk(op string, w int, val uint64, name string, p1, p2 int, args ...*Term) *Term {
	k := termKey{op: op, w: w, val: val, name: name, p1: p1, p2: p2, a0: -1, a1: -1, a2: -1, n: len(args)}
	switch len(args) {
	case 3:
		k.a2 = args[2].ID
		fallthrough
	case 2:
		k.a1 = args[1].ID
		fallthrough
	case 1:
		k.a0 = args[0].ID
	case 0:
	default:
		panic("mk: more than three arguments")
	}
	if t, ok := c.tab[k]; ok {
		return t
	}
	t := &Term{ID: c.next, Op: op, W: w, Val: val, Name: name, Args: append([]*Term(nil), args...), P1: p1, P2: p2}
	c.next++
	c.tab[k] = t
	c.Terms = append(c.Terms, t)
	return t
}

func (t *Term) IsConst() bool { return t.Op == "const" }
func (t *Term) IsTrue() bool  { return t.Op == "const" && t.W == 0 && t.Val == 1 }
func (t *Term) IsFalse() bool { return t.Op == "const" && t.W == 0 && t.Val == 0 }

// Signed returns the constant value sign-extended to int64.
func (t *Term) Signed() int64 {
	if t.W >= 64 {
		return int64(t.Val)
	}
	v := t.Val
	if v&(uint64(1)<<uint(t.W-1)) != 0 {
		v |= ^mask(t.W)
	}
	return int64(v)
}

func (c *Ctx) Const(w int, v uint64) *Term { return c.mk("const", w, v&mask(w), "", 0, 0) }
func (c *Ctx) Bool(b bool) *Term {
	if b {
		return c.mk("const", 0, 1, "", 0, 0)
	}
	return c.mk("const", 0, 0, "", 0, 0)
}
func (c *Ctx) Var(name string, w int) *Term { return c.mk("var", w, 0, name, 0, 0) }

// UF application: name : BV64 -> BV(w)
func (c *Ctx) UF(name string, w int, arg *Term) *Term { return c.mk("uf", w, 0, name, 0, 0, arg) }

func (c *Ctx) Not(a *Term) *Term {
	if a.IsConst() {
		return c.Bool(a.Val == 0)
	}
	if a.Op == "not" {
		return a.Args[0]
	}
	return c.mk("not", 0, 0, "", 0, 0, a)
}
func (c *Ctx) And(a, b *Term) *Term {
	if a.IsFalse() || b.IsFalse() {
		return c.Bool(false)
	}
	if a.IsTrue() {
		return b
	}
	if b.IsTrue() || a == b {
		return a
	}
	return c.mk("and", 0, 0, "", 0, 0, a, b)
}
func (c *Ctx) Or(a, b *Term) *Term {
	if a.IsTrue() || b.IsTrue() {
		return c.Bool(true)
	}
	if a.IsFalse() {
		return b
	}
	if b.IsFalse() || a == b {
		return a
	}
	return c.mk("or", 0, 0, "", 0, 0, a, b)
}
func (c *Ctx) Implies(a, b *Term) *Term { return c.Or(c.Not(a), b) }
func (c *Ctx) Ite(cond, a, b *Term) *Term {
	if cond.IsTrue() {
		return a
	}
	if cond.IsFalse() {
		return b
	}
	if a == b {
		return a
	}
	if a.W == 0 {
		if a.IsTrue() && b.IsFalse() {
			return cond
		}
		if a.IsFalse() && b.IsTrue() {
			return c.Not(cond)
		}
	}
	return c.mk("ite", a.W, 0, "", 0, 0, cond, a, b)
}
func (c *Ctx) Eq(a, b *Term) *Term {
	if a.W != b.W {
		panic(fmt.Sprintf("Eq width mismatch %d %d", a.W, b.W))
	}
	if a == b {
		return c.Bool(true)
	}
	if a.IsConst() && b.IsConst() {
		return c.Bool(a.Val == b.Val)
	}
	if a.W == 0 {
		if a.IsConst() {
			a, b = b, a
		}
		if b.IsTrue() {
			return a
		}
		if b.IsFalse() {
			return c.Not(a)
		}
	}
	if a.ID > b.ID {
		a, b = b, a
	}
	return c.mk("=", 0, 0, "", 0, 0, a, b)
}

func sext(v uint64, w int) int64 {
	if w >= 64 {
		return int64(v)
	}
	if v&(uint64(1)<<uint(w-1)) != 0 {
		v |= ^mask(w)
	}
	return int64(v)
}

// Bin builds a bit-vector binary operation (result width = a.W).
func (c *Ctx) Bin(op string, a, b *Term) *Term {
	if a.W != b.W {
		panic(fmt.Sprintf("Bin %s width mismatch %d %d", op, a.W, b.W))
	}
	w := a.W
	if a.IsConst() && b.IsConst() {
		x, y := a.Val, b.Val
		var r uint64
		switch op {
		case "bvadd":
			r = x + y
		case "bvsub":
			r = x - y
		case "bvmul":
			r = x * y
		case "bvand":
			r = x & y
		case "bvor":
			r = x | y
		case "bvxor":
			r = x ^ y
		case "bvshl":
			if y >= uint64(w) {
				r = 0
			} else {
				r = x << y
			}
		case "bvlshr":
			if y >= uint64(w) {
				r = 0
			} else {
				r = x >> y
			}
		case "bvashr":
			s := sext(x, w)
			if y >= uint64(w) {
				if s < 0 {
					r = ^uint64(0)
				} else {
					r = 0
				}
			} else {
				r = uint64(s >> y)
			}
		case "bvudiv":
			if y == 0 {
				r = mask(w)
			} else {
				r = x / y
			}
		case "bvurem":
			if y == 0 {
				r = x
			} else {
				r = x % y
			}
		case "bvsdiv":
			if y == 0 {
				return c.mk(op, w, 0, "", 0, 0, a, b)
			}
			r = uint64(sext(x, w) / sext(y, w))
		case "bvsrem":
			if y == 0 {
				return c.mk(op, w, 0, "", 0, 0, a, b)
			}
			r = uint64(sext(x, w) % sext(y, w))
		default:
			panic("Bin: unknown op " + op)
		}
		return c.Const(w, r)
	}
	// identities
	switch op {
	case "bvadd", "bvor", "bvxor":
		if a.IsConst() && a.Val == 0 {
			return b
		}
		if b.IsConst() && b.Val == 0 {
			return a
		}
	case "bvsub", "bvshl", "bvlshr", "bvashr":
		if b.IsConst() && b.Val == 0 {
			return a
		}
	case "bvand":
		if (a.IsConst() && a.Val == 0) || (b.IsConst() && b.Val == 0) {
			return c.Const(w, 0)
		}
		if a.IsConst() && a.Val == mask(w) {
			return b
		}
		if b.IsConst() && b.Val == mask(w) {
			return a
		}
		if a == b {
			return a
		}
	case "bvmul":
		if a.IsConst() && a.Val == 1 {
			return b
		}
		if b.IsConst() && b.Val == 1 {
			return a
		}
	}
	if op == "bvadd" || op == "bvsub" {
		// (x + c1) + c2 -> x + (c1+c2) ; (x + c1) - c2
		if b.IsConst() && a.Op == "bvadd" && a.Args[1].IsConst() {
			if op == "bvadd" {
				return c.Bin("bvadd", a.Args[0], c.Const(w, a.Args[1].Val+b.Val))
			}
			return c.Bin("bvadd", a.Args[0], c.Const(w, a.Args[1].Val-b.Val))
		}
		if op == "bvsub" && a == b {
			return c.Const(w, 0)
		}
		// (x + y) - x -> y ; (x + y) - y -> x
		if op == "bvsub" && a.Op == "bvadd" {
			if a.Args[0] == b {
				return a.Args[1]
			}
			if a.Args[1] == b {
				return a.Args[0]
			}
		}
	}
	// canonical order for commutative ops: constant last
	switch op {
	case "bvadd", "bvmul", "bvand", "bvor", "bvxor":
		if a.IsConst() && !b.IsConst() {
			a, b = b, a
		}
	}
	return c.mk(op, w, 0, "", 0, 0, a, b)
}

func (c *Ctx) BvNot(a *Term) *Term {
	if a.IsConst() {
		return c.Const(a.W, ^a.Val)
	}
	return c.mk("bvnot", a.W, 0, "", 0, 0, a)
}
func (c *Ctx) BvNeg(a *Term) *Term {
	if a.IsConst() {
		return c.Const(a.W, -a.Val)
	}
	return c.mk("bvneg", a.W, 0, "", 0, 0, a)
}

// Cmp: op in bvult bvule bvslt bvsle (others derived)
func (c *Ctx) Cmp(op string, a, b *Term) *Term {
	if a.W != b.W {
		panic(fmt.Sprintf("Cmp %s width mismatch %d %d", op, a.W, b.W))
	}
	if a.IsConst() && b.IsConst() {
		switch op {
		case "bvult":
			return c.Bool(a.Val < b.Val)
		case "bvule":
			return c.Bool(a.Val <= b.Val)
		case "bvslt":
			return c.Bool(sext(a.Val, a.W) < sext(b.Val, b.W))
		case "bvsle":
			return c.Bool(sext(a.Val, a.W) <= sext(b.Val, b.W))
		}
	}
	if a == b {
		return c.Bool(op == "bvule" || op == "bvsle")
	}
	return c.mk(op, 0, 0, "", 0, 0, a, b)
}

func (c *Ctx) ZExt(a *Term, w int) *Term {
	if w == a.W {
		return a
	}
	if w < a.W {
		return c.Extract(a, w-1, 0)
	}
	if a.IsConst() {
		return c.Const(w, a.Val)
	}
	return c.mk("zext", w, 0, "", w-a.W, 0, a)
}
func (c *Ctx) SExt(a *Term, w int) *Term {
	if w == a.W {
		return a
	}
	if w < a.W {
		return c.Extract(a, w-1, 0)
	}
	if a.IsConst() {
		return c.Const(w, uint64(sext(a.Val, a.W)))
	}
	return c.mk("sext", w, 0, "", w-a.W, 0, a)
}
func (c *Ctx) Extract(a *Term, hi, lo int) *Term {
	w := hi - lo + 1
	if lo == 0 && w == a.W {
		return a
	}
	if a.IsConst() {
		return c.Const(w, a.Val>>uint(lo))
	}
	if (a.Op == "zext" || a.Op == "sext") && lo == 0 && w <= a.Args[0].W {
		return c.Extract(a.Args[0], hi, 0)
	}
	if a.Op == "zext" && lo == 0 && w > a.Args[0].W {
		return c.ZExt(a.Args[0], w)
	}
	return c.mk("extract", w, 0, "", hi, lo, a)
}

// ---- SMT-LIB printing

func sortOf(w int) string {
	if w == 0 {
		return "Bool"
	}
	return fmt.Sprintf("(_ BitVec %d)", w)
}

func (t *Term) ref() string {
	switch t.Op {
	case "const":
		if t.W == 0 {
			if t.Val == 1 {
				return "true"
			}
			return "false"
		}
		return fmt.Sprintf("(_ bv%d %d)", t.Val, t.W)
	case "var":
		return "v_" + t.Name
	}
	return fmt.Sprintf("t%d", t.ID)
}

func (t *Term) body() string {
	a := func(i int) string { return t.Args[i].ref() }
	switch t.Op {
	case "not":
		return "(not " + a(0) + ")"
	case "and", "or", "=", "bvadd", "bvsub", "bvmul", "bvand", "bvor", "bvxor", "bvshl", "bvlshr", "bvashr",
		"bvudiv", "bvurem", "bvsdiv", "bvsrem", "bvult", "bvule", "bvslt", "bvsle":
		return "(" + t.Op + " " + a(0) + " " + a(1) + ")"
	case "ite":
		return "(ite " + a(0) + " " + a(1) + " " + a(2) + ")"
	case "bvnot", "bvneg":
		return "(" + t.Op + " " + a(0) + ")"
	case "zext":
		return fmt.Sprintf("((_ zero_extend %d) %s)", t.P1, a(0))
	case "sext":
		return fmt.Sprintf("((_ sign_extend %d) %s)", t.P1, a(0))
	case "extract":
		return fmt.Sprintf("((_ extract %d %d) %s)", t.P1, t.P2, a(0))
	case "uf":
		return "(f_" + t.Name + " " + a(0) + ")"
	}
	panic("body: " + t.Op)
}

func (t *Term) String() string {
	switch t.Op {
	case "const", "var":
		return t.ref()
	}
	parts := []string{t.Op}
	for _, a := range t.Args {
		parts = append(parts, a.String())
	}
	return "(" + strings.Join(parts, " ") + ")"
}
