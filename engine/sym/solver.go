package sym

import (
	"bufio"
	"fmt"
	"io"
	"os/exec"
	"strconv"
	"strings"
	"time"
)

type Result int

const (
	Unsat Result = iota
	Sat
	Unknown
)

func (r Result) String() string { return [...]string{"unsat", "sat", "unknown"}[r] }

// Solver talks SMT-LIB2 to one persistent z3 process. All definitions are global (level 0);
// each query is push / asserts / check-sat / (get-value) / pop.
type Solver struct {
	ctx      *Ctx
	cmd      *exec.Cmd
	in       io.WriteCloser
	out      *bufio.Reader
	defined  map[int]bool
	declVar  map[string]bool
	declUF   map[string]bool
	Queries  int
	Time     time.Duration
	Log      io.Writer
	TimeoutS int
	stack    []*Term
	Incr     bool
	Slow     int
	SlowTime time.Duration
}

func NewSolver(ctx *Ctx, bin string, args ...string) (*Solver, error) {
	cmd := exec.Command(bin, args...)
	in, err := cmd.StdinPipe()
	if err != nil {
		return nil, err
	}
	outp, err := cmd.StdoutPipe()
	if err != nil {
		return nil, err
	}
	cmd.Stderr = cmd.Stdout
	if err := cmd.Start(); err != nil {
		return nil, err
	}
	s := &Solver{ctx: ctx, cmd: cmd, in: in, out: bufio.NewReader(outp), defined: map[int]bool{}, declVar: map[string]bool{}, declUF: map[string]bool{}}
	return s, nil
}

// Init sends the option prologue (after Log has been set, so that logs are self-contained).
func (s *Solver) Init() {
	s.send("(set-option :print-success false)")
	s.send("(set-option :produce-models true)")
	s.send("(set-option :global-declarations true)")
	if s.TimeoutS > 0 {
		s.send(fmt.Sprintf("(set-option :timeout %d)", s.TimeoutS*1000))
	}
	s.send("(set-logic QF_UFBV)")
}

func (s *Solver) Close() { s.in.Close(); s.cmd.Wait() }

func (s *Solver) send(line string) {
	if s.Log != nil {
		fmt.Fprintln(s.Log, line)
	}
	io.WriteString(s.in, line+"\n")
}

func (s *Solver) define(t *Term) {
	switch t.Op {
	case "const":
		return
	case "var":
		if !s.declVar[t.Name] {
			s.declVar[t.Name] = true
			s.send(fmt.Sprintf("(declare-const v_%s %s)", t.Name, sortOf(t.W)))
		}
		return
	}
	if s.defined[t.ID] {
		return
	}
	for _, a := range t.Args {
		s.define(a)
	}
	if t.Op == "uf" && !s.declUF[t.Name] {
		s.declUF[t.Name] = true
		s.send(fmt.Sprintf("(declare-fun f_%s ((_ BitVec 64)) %s)", t.Name, sortOf(t.W)))
	}
	s.defined[t.ID] = true
	s.send(fmt.Sprintf("(define-fun t%d () %s %s)", t.ID, sortOf(t.W), t.body()))
}

func (s *Solver) readLine() string {
	line, err := s.out.ReadString('\n')
	if err != nil {
		return "(error \"solver died: " + err.Error() + "\")"
	}
	return strings.TrimSpace(line)
}

// Check decides satisfiability of the conjunction. If want is non-empty and the result is Sat,
// the values of the wanted terms are returned.
func (s *Solver) Check(asserts []*Term, want []*Term) (Result, map[*Term]uint64) {
	t0 := time.Now()
	defer func() { s.Time += time.Since(t0); s.Queries++ }()
	for _, a := range asserts {
		if a.IsFalse() {
			return Unsat, nil
		}
	}
	for _, a := range asserts {
		s.define(a)
	}
	for _, w := range want {
		s.define(w)
	}
	s.send("(push 1)")
	for _, a := range asserts {
		if a.IsTrue() {
			continue
		}
		s.send("(assert " + a.ref() + ")")
	}
	s.send("(check-sat)")
	ans := s.readLine()
	var res Result
	switch ans {
	case "sat":
		res = Sat
	case "unsat":
		res = Unsat
	default:
		res = Unknown
		if strings.HasPrefix(ans, "(error") {
			fmt.Println("SOLVER ERROR:", ans)
		}
	}
	var model map[*Term]uint64
	if res == Sat && len(want) > 0 {
		model = map[*Term]uint64{}
		for _, w := range want {
			if w.IsConst() {
				model[w] = w.Val
				continue
			}
			s.send("(get-value (" + w.ref() + "))")
			// answer: ((name value))
			txt := s.readLine()
			for strings.Count(txt, "(") > strings.Count(txt, ")") {
				txt += " " + s.readLine()
			}
			model[w] = parseValue(txt)
		}
	}
	s.send("(pop 1)")
	return res, model
}

func parseValue(txt string) uint64 {
	// find last token that looks like #x.. #b.. true false or (_ bvN W)
	if i := strings.LastIndex(txt, "#x"); i >= 0 {
		j := i + 2
		for j < len(txt) && strings.ContainsRune("0123456789abcdefABCDEF", rune(txt[j])) {
			j++
		}
		v, _ := strconv.ParseUint(txt[i+2:j], 16, 64)
		return v
	}
	if i := strings.LastIndex(txt, "#b"); i >= 0 {
		j := i + 2
		for j < len(txt) && (txt[j] == '0' || txt[j] == '1') {
			j++
		}
		v, _ := strconv.ParseUint(txt[i+2:j], 2, 64)
		return v
	}
	if i := strings.LastIndex(txt, "(_ bv"); i >= 0 {
		j := i + 5
		k := j
		for k < len(txt) && txt[k] >= '0' && txt[k] <= '9' {
			k++
		}
		v, _ := strconv.ParseUint(txt[j:k], 10, 64)
		return v
	}
	if strings.Contains(txt, " true)") {
		return 1
	}
	return 0
}

// CheckPC decides pc ∧ extra keeping the solver's assertion stack aligned with pc (incremental).
func (s *Solver) CheckPC(pc []*Term, extra *Term, want []*Term) (Result, map[*Term]uint64) {
	if !s.Incr {
		as := append([]*Term(nil), pc...)
		if extra != nil {
			as = append(as, extra)
		}
		return s.Check(as, want)
	}
	t0 := time.Now()
	defer func() { s.Time += time.Since(t0); s.Queries++ }()
	for _, a := range pc {
		if a.IsFalse() {
			return Unsat, nil
		}
	}
	if extra != nil && extra.IsFalse() {
		return Unsat, nil
	}
	l := 0
	for l < len(pc) && l < len(s.stack) && pc[l] == s.stack[l] {
		l++
	}
	if l < len(s.stack) {
		s.send(fmt.Sprintf("(pop %d)", len(s.stack)-l))
		s.stack = s.stack[:l]
	}
	for _, a := range pc[l:] {
		s.define(a)
		s.send("(push 1)")
		s.send("(assert " + a.ref() + ")")
		s.stack = append(s.stack, a)
	}
	if extra != nil {
		s.define(extra)
	}
	for _, w := range want {
		s.define(w)
	}
	s.send("(push 1)")
	if extra != nil {
		s.send("(assert " + extra.ref() + ")")
	}
	s.send("(check-sat)")
	tq := time.Now()
	ans := s.readLine()
	if d := time.Since(tq); d > 150*time.Millisecond {
		s.Slow++
		s.SlowTime += d
	}
	var res Result
	switch ans {
	case "sat":
		res = Sat
	case "unsat":
		res = Unsat
	default:
		res = Unknown
		fmt.Println("SOLVER:", ans)
	}
	var model map[*Term]uint64
	if res == Sat && len(want) > 0 {
		model = map[*Term]uint64{}
		for _, w := range want {
			if w.IsConst() {
				model[w] = w.Val
				continue
			}
			s.send("(get-value (" + w.ref() + "))")
			txt := s.readLine()
			for strings.Count(txt, "(") > strings.Count(txt, ")") {
				txt += " " + s.readLine()
			}
			model[w] = parseValue(txt)
		}
	}
	s.send("(pop 1)")
	return res, model
}
