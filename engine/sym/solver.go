package sym

import (
	"bufio"
	"fmt"
	"io"
	"os/exec"
	"strconv"
	"strings"
	"syscall"
	"time"
)

type Result int

const (
	Unsat Result = iota
	Sat
	Unknown
)

func (r Result) String() string { return [...]string{"unsat", "sat", "unknown"}[r] }

// Solver talks SMT-LIB2 to one persistent z3 process. All definitions are global (level 0);
// each query is push / asserts / check-sat / (get-value) / pop.
type Solver struct {
	ctx       *Ctx
	cmd       *exec.Cmd
	in        io.WriteCloser
	lines     chan string
	bin       string
	args      []string
	dead      bool
	inited    bool
	Restarts  int
	Unknowns  int
	LastError string
	defined   map[int]bool
	declVar   map[string]bool
	declUF    map[string]bool
	Queries   int
	Time      time.Duration
	Log       io.Writer
	TimeoutS  int
	stack     []*Term
	Incr      bool
	Slow      int
	SlowTime  time.Duration
	Retries   int  // queries asked a second time (fresh process, longer timeout) after an unknown answer
	Retried   int  // ... of which the second attempt was conclusive
	inRetry   bool
}

func NewSolver(ctx *Ctx, bin string, args ...string) (*Solver, error) {
	s := &Solver{ctx: ctx, bin: bin, args: args}
	if err := s.start(); err != nil {
		return nil, err
	}
	return s, nil
}

// start launches a fresh solver process and forgets everything that was defined in the old one.
func (s *Solver) start() error {
	cmd := exec.Command(s.bin, s.args...)
	in, err := cmd.StdinPipe()
	if err != nil {
		return err
	}
	outp, err := cmd.StdoutPipe()
	if err != nil {
		return err
	}
	cmd.Stderr = cmd.Stdout
	cmd.SysProcAttr = &syscall.SysProcAttr{Pdeathsig: syscall.SIGKILL}
	if err := cmd.Start(); err != nil {
		return err
	}
	s.cmd, s.in = cmd, in
	s.defined, s.declVar, s.declUF = map[int]bool{}, map[string]bool{}, map[string]bool{}
	s.stack = nil
	s.dead = false
	lines := make(chan string, 64)
	s.lines = lines
	go func() {
		r := bufio.NewReader(outp)
		for {
			line, err := r.ReadString('\n')
			if err != nil {
				lines <- "(error \"solver died: " + err.Error() + "\")"
				close(lines)
				return
			}
			lines <- strings.TrimSpace(line)
		}
	}()
	return nil
}

// Init sends the option prologue (after Log has been set, so that logs are self-contained).
func (s *Solver) Init() {
	s.inited = true
	s.send("(set-option :print-success false)")
	s.send("(set-option :produce-models true)")
	s.send("(set-option :global-declarations true)")
	if s.TimeoutS > 0 && strings.Contains(s.bin, "z3") {
		s.send(fmt.Sprintf("(set-option :timeout %d)", s.TimeoutS*1000))
	}
	s.send("(set-logic QF_UFBV)")
}

func (s *Solver) Close() {
	if s.cmd == nil {
		return
	}
	s.in.Close()
	done := make(chan struct{})
	go func() { s.cmd.Wait(); close(done) }()
	select {
	case <-done:
	case <-time.After(2 * time.Second):
		s.cmd.Process.Kill()
		<-done
	}
}

// restart kills a stuck or dead solver process; the next query starts from a clean process.
func (s *Solver) restart() {
	s.Restarts++
	if s.cmd != nil && s.cmd.Process != nil {
		s.cmd.Process.Kill()
		go s.cmd.Wait()
	}
	if err := s.start(); err != nil {
		s.dead = true
		return
	}
	if s.inited {
		s.Init()
	}
}

func (s *Solver) send(line string) {
	if s.Log != nil {
		fmt.Fprintln(s.Log, line)
	}
	io.WriteString(s.in, line+"\n")
}

func (s *Solver) define(t *Term) {
	switch t.Op {
	case "const":
		return
	case "var":
		if !s.declVar[t.Name] {
			s.declVar[t.Name] = true
			s.send(fmt.Sprintf("(declare-const v_%s %s)", t.Name, sortOf(t.W)))
		}
		return
	}
	if s.defined[t.ID] {
		return
	}
	for _, a := range t.Args {
		s.define(a)
	}
	if t.Op == "uf" && !s.declUF[t.Name] {
		s.declUF[t.Name] = true
		s.send(fmt.Sprintf("(declare-fun f_%s ((_ BitVec 64)) %s)", t.Name, sortOf(t.W)))
	}
	s.defined[t.ID] = true
	s.send(fmt.Sprintf("(define-fun t%d () %s %s)", t.ID, sortOf(t.W), t.body()))
}

// readLine waits for one answer line; a solver that stays silent past its own timeout plus a grace
// period is killed and restarted (the answer then counts as unknown).
func (s *Solver) readLine() string {
	limit := time.Duration(s.TimeoutS+20) * time.Second
	if s.TimeoutS == 0 {
		limit = 10 * time.Minute
	}
	select {
	case line, ok := <-s.lines:
		if !ok {
			s.restart()
			return "(error \"solver died\")"
		}
		if strings.HasPrefix(line, "(error \"solver died") {
			s.restart()
		}
		return line
	case <-time.After(limit):
		s.restart()
		return "(error \"watchdog timeout\")"
	}
}

// Check decides satisfiability of the conjunction. If want is non-empty and the result is Sat,
// the values of the wanted terms are returned.
func (s *Solver) Check(asserts []*Term, want []*Term) (Result, map[*Term]uint64) {
	t0 := time.Now()
	defer func() { s.Time += time.Since(t0); s.Queries++ }()
	for _, a := range asserts {
		if a.IsFalse() {
			return Unsat, nil
		}
	}
	for _, a := range asserts {
		s.define(a)
	}
	for _, w := range want {
		s.define(w)
	}
	s.send("(push 1)")
	for _, a := range asserts {
		if a.IsTrue() {
			continue
		}
		s.send("(assert " + a.ref() + ")")
	}
	s.send("(check-sat)")
	r0 := s.Restarts
	ans := s.readLine()
	var res Result
	switch ans {
	case "sat":
		res = Sat
	case "unsat":
		res = Unsat
	case "unknown":
		res = Unknown
		s.Unknowns++
	default:
		// error line, watchdog or dead process: the process state is unreliable, start clean
		s.Unknowns++
		s.LastError = ans
		if s.Restarts == r0 {
			s.restart()
		}
		return Unknown, nil
	}
	var model map[*Term]uint64
	if res == Sat && len(want) > 0 {
		model = map[*Term]uint64{}
		for _, w := range want {
			if w.IsConst() {
				model[w] = w.Val
				continue
			}
			s.send("(get-value (" + w.ref() + "))")
			// answer: ((name value))
			txt := s.readLine()
			if s.Restarts != r0 {
				return Unknown, nil
			}
			for strings.Count(txt, "(") > strings.Count(txt, ")") {
				txt += " " + s.readLine()
			}
			model[w] = parseValue(txt)
		}
	}
	s.send("(pop 1)")
	return res, model
}

func parseValue(txt string) uint64 {
	// find last token that looks like #x.. #b.. true false or (_ bvN W)
	if i := strings.LastIndex(txt, "#x"); i >= 0 {
		j := i + 2
		for j < len(txt) && strings.ContainsRune("0123456789abcdefABCDEF", rune(txt[j])) {
			j++
		}
		v, _ := strconv.ParseUint(txt[i+2:j], 16, 64)
		return v
	}
	if i := strings.LastIndex(txt, "#b"); i >= 0 {
		j := i + 2
		for j < len(txt) && (txt[j] == '0' || txt[j] == '1') {
			j++
		}
		v, _ := strconv.ParseUint(txt[i+2:j], 2, 64)
		return v
	}
	if i := strings.LastIndex(txt, "(_ bv"); i >= 0 {
		j := i + 5
		k := j
		for k < len(txt) && txt[k] >= '0' && txt[k] <= '9' {
			k++
		}
		v, _ := strconv.ParseUint(txt[j:k], 10, 64)
		return v
	}
	if strings.Contains(txt, " true)") {
		return 1
	}
	return 0
}

// CheckPC decides pc ∧ extra keeping the solver's assertion stack aligned with pc (incremental).
func (s *Solver) CheckPC(pc []*Term, extra *Term, want []*Term) (Result, map[*Term]uint64) {
	res, model := s.checkPC1(pc, extra, want)
	if res != Unknown || s.inRetry || s.dead {
		return res, model
	}
	// An unknown answer (solver timeout under load, watchdog, dead process) is asked once more: clean process,
	// four times the timeout, the whole path condition in one non-incremental query. Only if that is unknown as
	// well does the answer count as unknown.
	s.inRetry = true
	defer func() { s.inRetry = false }()
	s.Retries++
	u := s.Unknowns
	old := s.TimeoutS
	if old > 0 {
		s.TimeoutS = 4 * old
	}
	s.restart()
	as := append([]*Term(nil), pc...)
	if extra != nil {
		as = append(as, extra)
	}
	res, model = s.Check(as, want)
	s.TimeoutS = old
	if !s.dead {
		s.restart() // back to the normal timeout with a clean assertion stack
	}
	if res != Unknown {
		s.Retried++
		s.Unknowns = u - 1
	} else {
		s.Unknowns = u
	}
	return res, model
}

func (s *Solver) checkPC1(pc []*Term, extra *Term, want []*Term) (Result, map[*Term]uint64) {
	if !s.Incr {
		as := append([]*Term(nil), pc...)
		if extra != nil {
			as = append(as, extra)
		}
		return s.Check(as, want)
	}
	t0 := time.Now()
	defer func() { s.Time += time.Since(t0); s.Queries++ }()
	for _, a := range pc {
		if a.IsFalse() {
			return Unsat, nil
		}
	}
	if extra != nil && extra.IsFalse() {
		return Unsat, nil
	}
	l := 0
	for l < len(pc) && l < len(s.stack) && pc[l] == s.stack[l] {
		l++
	}
	if l < len(s.stack) {
		s.send(fmt.Sprintf("(pop %d)", len(s.stack)-l))
		s.stack = s.stack[:l]
	}
	for _, a := range pc[l:] {
		s.define(a)
		s.send("(push 1)")
		s.send("(assert " + a.ref() + ")")
		s.stack = append(s.stack, a)
	}
	if extra != nil {
		s.define(extra)
	}
	for _, w := range want {
		s.define(w)
	}
	s.send("(push 1)")
	if extra != nil {
		s.send("(assert " + extra.ref() + ")")
	}
	s.send("(check-sat)")
	tq := time.Now()
	r0 := s.Restarts
	ans := s.readLine()
	if d := time.Since(tq); d > 150*time.Millisecond {
		s.Slow++
		s.SlowTime += d
	}
	var res Result
	switch ans {
	case "sat":
		res = Sat
	case "unsat":
		res = Unsat
	case "unknown":
		res = Unknown
		s.Unknowns++
	default:
		s.Unknowns++
		s.LastError = ans
		if s.Restarts == r0 {
			s.restart()
		}
		return Unknown, nil
	}
	var model map[*Term]uint64
	if res == Sat && len(want) > 0 {
		model = map[*Term]uint64{}
		for _, w := range want {
			if w.IsConst() {
				model[w] = w.Val
				continue
			}
			s.send("(get-value (" + w.ref() + "))")
			txt := s.readLine()
			if s.Restarts != r0 {
				return Unknown, nil
			}
			for strings.Count(txt, "(") > strings.Count(txt, ")") {
				txt += " " + s.readLine()
			}
			model[w] = parseValue(txt)
		}
	}
	s.send("(pop 1)")
	return res, model
}
