package main

import (
	"bytes"
	"fmt"
	"go/ast"
	"go/format"
	"go/parser"
	"go/token"
	"go/types"
	"os"
	"path/filepath"
	"sort"
	"strconv"
	"strings"

	"golang.org/x/tools/go/ast/astutil"
	"golang.org/x/tools/go/packages"
	"golang.org/x/tools/go/ssa"
	"golang.org/x/tools/go/ssa/ssautil"
)

// Meta describes one harness entry point (parsed from its //verif:harness directive).
type Meta struct {
	Group, Pkg, Name, File string
	Props                  []string
	Tiers                  map[string]bool
	Paths                  int
	PathsThorough          int
	Unwind                 int
	Depth                  int
	Split                  bool
	Reach                  []string
	Validate               int
	TimeoutS               int
	Spin                   string // assertion id under which an unwinding failure is reported as a non-progress violation
}

type Rewrite struct {
	File string `json:"file"`
	Line int    `json:"line"`
	From string `json:"from"`
	To   string `json:"to"`
}

// Group is one loadable unit: harness files for one or more packages sharing one cut.
type Group struct {
	Name     string
	Dir      string
	Pkgs     []string
	Metas    []*Meta
	Replace  []string    // in-package declarations renamed to <name>__orig
	Calls    [][2]string // external function/method -> harness function
	Overlay  map[string][]byte
	Rewrites []Rewrite
	Prog     *ssa.Program
	SSAPkgs  map[string]*ssa.Package
	LoadS    float64
	selected []*Meta
	Twins    map[string][]string // package -> harness files of another package injected with the package clause swapped
}

func repoRoot() string {
	if r := os.Getenv("VERIF_REPO"); r != "" {
		return r
	}
	return "/repo"
}

func verifRoot() string {
	if r := os.Getenv("VERIF_ROOT"); r != "" {
		return r
	}
	return "/verif"
}

// discover parses all harness directories.
func discover() ([]*Group, error) {
	hroot := filepath.Join(verifRoot(), "harness")
	ents, err := os.ReadDir(hroot)
	if err != nil {
		return nil, err
	}
	var groups []*Group
	for _, e := range ents {
		if !e.IsDir() || e.Name() == "rt" {
			continue
		}
		g := &Group{Name: e.Name(), Dir: filepath.Join(hroot, e.Name())}
		pds, _ := os.ReadDir(g.Dir)
		for _, pd := range pds {
			if !pd.IsDir() {
				continue
			}
			g.Pkgs = append(g.Pkgs, pd.Name())
			files, _ := filepath.Glob(filepath.Join(g.Dir, pd.Name(), "*.go"))
			sort.Strings(files)
			for _, f := range files {
				if err := parseHarnessFile(g, pd.Name(), f, false); err != nil {
					return nil, err
				}
				src, _ := os.ReadFile(f)
				for _, line := range strings.Split(string(src), "\n") {
					if strings.HasPrefix(line, "//verif:twin ") {
						tp := strings.TrimSpace(strings.TrimPrefix(line, "//verif:twin "))
						if g.Twins == nil {
							g.Twins = map[string][]string{}
						}
						g.Twins[tp] = append(g.Twins[tp], f)
						if err := parseHarnessFile(g, tp, f, true); err != nil {
							return nil, err
						}
					}
				}
			}
		}
		for tp := range g.Twins {
			if !has(g.Pkgs, tp) {
				g.Pkgs = append(g.Pkgs, tp)
			}
		}
		if len(g.Metas) > 0 {
			groups = append(groups, g)
		}
	}
	return groups, nil
}

func parseHarnessFile(g *Group, pkg, file string, isTwin bool) error {
	src, err := os.ReadFile(file)
	if err != nil {
		return err
	}
	for _, line := range strings.Split(string(src), "\n") {
		line = strings.TrimSpace(line)
		if strings.HasPrefix(line, "//verif:replace ") {
			g.Replace = append(g.Replace, pkg+":"+strings.TrimSpace(strings.TrimPrefix(line, "//verif:replace ")))
		}
		if strings.HasPrefix(line, "//verif:replacecall ") {
			f := strings.Fields(strings.TrimPrefix(line, "//verif:replacecall "))
			if len(f) != 2 {
				return fmt.Errorf("%s: bad replacecall directive: %s", file, line)
			}
			g.Calls = append(g.Calls, [2]string{f[0], f[1]})
		}
	}
	fset := token.NewFileSet()
	af, err := parser.ParseFile(fset, file, src, parser.ParseComments)
	if err != nil {
		return err
	}
	for _, d := range af.Decls {
		fd, ok := d.(*ast.FuncDecl)
		if !ok || fd.Recv != nil || !strings.HasPrefix(fd.Name.Name, "VerifHarness_") {
			continue
		}
		m := &Meta{Group: g.Name, Pkg: pkg, Name: fd.Name.Name, File: file, Tiers: map[string]bool{}, Paths: 20000, Unwind: 300, Depth: 200, Validate: 3, TimeoutS: 60}
		found := false
		var twinProps []string
		if fd.Doc != nil {
			for _, c := range fd.Doc.List {
				if !strings.HasPrefix(c.Text, "//verif:harness") {
					continue
				}
				found = true
				for _, kv := range strings.Fields(strings.TrimPrefix(c.Text, "//verif:harness")) {
					k, v, _ := strings.Cut(kv, "=")
					switch k {
					case "props":
						m.Props = strings.Split(v, ",")
					case "twinprops":
						twinProps = strings.Split(v, ",")
					case "tiers":
						for _, t := range strings.Split(v, ",") {
							m.Tiers[t] = true
						}
					case "paths":
						m.Paths, _ = strconv.Atoi(v)
					case "tpaths":
						m.PathsThorough, _ = strconv.Atoi(v)
					case "unwind":
						m.Unwind, _ = strconv.Atoi(v)
					case "depth":
						m.Depth, _ = strconv.Atoi(v)
					case "split":
						m.Split = true
					case "reach":
						m.Reach = strings.Split(v, ",")
					case "validate":
						m.Validate, _ = strconv.Atoi(v)
					case "timeout":
						m.TimeoutS, _ = strconv.Atoi(v)
					case "spin":
						m.Spin = v
					default:
						return fmt.Errorf("%s: unknown harness option %q", file, k)
					}
				}
			}
		}
		if !found {
			return fmt.Errorf("%s: %s has no //verif:harness directive", file, fd.Name.Name)
		}
		if twinProps != nil && isTwin {
			m.Props = twinProps // the twin instance (other stack) serves a subset of the properties in the quick tier
		}
		if len(m.Tiers) == 0 {
			m.Tiers["quick"], m.Tiers["thorough"] = true, true
		}
		if m.PathsThorough == 0 {
			m.PathsThorough = 10 * m.Paths
		}
		g.Metas = append(g.Metas, m)
	}
	return nil
}

func rtTemplate(name, pkg string) []byte {
	b, err := os.ReadFile(filepath.Join(verifRoot(), "harness", "rt", name))
	if err != nil {
		panic(err)
	}
	return []byte(strings.Replace(string(b), "package PKG", "package "+pkg, 1))
}

// buildOverlay prepares the overlay shared by the symbolic load and the native build (except the runtime file).
func (g *Group) buildOverlay() error {
	repo := repoRoot()
	g.Overlay = map[string][]byte{}
	for _, pkg := range g.Pkgs {
		files, _ := filepath.Glob(filepath.Join(g.Dir, pkg, "*.go"))
		for _, f := range files {
			b, err := os.ReadFile(f)
			if err != nil {
				return err
			}
			g.Overlay[filepath.Join(repo, pkg, "zz_verif_"+filepath.Base(f))] = b
		}
	}
	for tp, files := range g.Twins {
		for _, f := range files {
			b, err := os.ReadFile(f)
			if err != nil {
				return err
			}
			src := string(b)
			i := strings.Index(src, "\npackage ")
			j := strings.Index(src[i+1:], "\n")
			src = src[:i+1] + "package " + tp + src[i+1+j:]
			g.Overlay[filepath.Join(repo, tp, "zz_verif_twin_"+filepath.Base(f))] = []byte(src)
		}
	}
	// in-package declaration renames
	repl := map[string]map[string]bool{}
	for _, r := range g.Replace {
		pkg, key, _ := strings.Cut(r, ":")
		if repl[pkg] == nil {
			repl[pkg] = map[string]bool{}
		}
		repl[pkg][key] = true
	}
	for pkg, keys := range repl {
		srcs, _ := filepath.Glob(filepath.Join(repo, pkg, "*.go"))
		done := map[string]bool{}
		for _, src := range srcs {
			if strings.HasSuffix(src, "_test.go") {
				continue
			}
			fset := token.NewFileSet()
			af, err := parser.ParseFile(fset, src, nil, parser.ParseComments)
			if err != nil {
				return err
			}
			changed := false
			for _, decl := range af.Decls {
				fd, ok := decl.(*ast.FuncDecl)
				if !ok {
					continue
				}
				key := fd.Name.Name
				if fd.Recv != nil && len(fd.Recv.List) == 1 {
					t := fd.Recv.List[0].Type
					if st, ok := t.(*ast.StarExpr); ok {
						t = st.X
					}
					if id, ok := t.(*ast.Ident); ok {
						key = id.Name + "." + fd.Name.Name
					}
				}
				if keys[key] {
					g.Rewrites = append(g.Rewrites, Rewrite{File: strings.TrimPrefix(src, repo+"/"), Line: fset.Position(fd.Pos()).Line, From: key, To: key + "__orig (harness supplies " + key + ")"})
					fd.Name.Name += "__orig"
					changed = true
					done[key] = true
				}
			}
			if changed {
				var buf bytes.Buffer
				if err := format.Node(&buf, fset, af); err != nil {
					return err
				}
				g.Overlay[src] = buf.Bytes()
			}
		}
		for k := range keys {
			if !done[k] {
				return fmt.Errorf("group %s: cut target %s.%s not found in the current tree", g.Name, pkg, k)
			}
		}
	}
	return nil
}

func (g *Group) loadOnce(rt string) ([]*packages.Package, error) {
	ov := map[string][]byte{}
	for k, v := range g.Overlay {
		ov[k] = v
	}
	for _, pkg := range g.Pkgs {
		ov[filepath.Join(repoRoot(), pkg, "zz_verif_rt.go")] = rtTemplate(rt, pkg)
	}
	cfg := &packages.Config{Mode: packages.LoadAllSyntax, Dir: repoRoot(), Env: append(os.Environ(), "GOFLAGS=-mod=mod", "GOPROXY=off"),
		BuildFlags: []string{"-tags=verif"}, Overlay: ov}
	var pats []string
	for _, p := range g.Pkgs {
		pats = append(pats, "./"+p)
	}
	pkgs, err := packages.Load(cfg, pats...)
	if err != nil {
		return nil, err
	}
	var errs []string
	packages.Visit(pkgs, nil, func(p *packages.Package) {
		for _, e := range p.Errors {
			errs = append(errs, e.Error())
		}
	})
	if len(errs) > 0 {
		if len(errs) > 12 {
			errs = errs[:12]
		}
		return nil, fmt.Errorf("group %s does not type-check against the current tree:\n  %s", g.Name, strings.Join(errs, "\n  "))
	}
	return pkgs, nil
}

// Load type-checks the group against the current tree and builds SSA.
func (g *Group) Load() error {
	if err := g.buildOverlay(); err != nil {
		return err
	}
	pkgs, err := g.loadOnce("rt_sym.go.tmpl")
	if err != nil {
		return err
	}
	if len(g.Calls) > 0 {
		// typed rewriting of references to external functions / methods, then reload
		want := map[string]string{}
		for _, c := range g.Calls {
			want[c[0]] = c[1]
		}
		used := map[string]bool{}
		for _, p := range pkgs {
			for i, af := range p.Syntax {
				fname := p.CompiledGoFiles[i]
				if strings.Contains(filepath.Base(fname), "zz_verif_") || strings.HasSuffix(fname, "_test.go") {
					continue
				}
				changed := false
				astutil.Apply(af, func(cur *astutil.Cursor) bool {
					switch n := cur.Node().(type) {
					case *ast.CallExpr:
						// method call x.M(args) -> to(x, args)
						sel, ok := n.Fun.(*ast.SelectorExpr)
						if !ok {
							return true
						}
						obj, ok := p.TypesInfo.Uses[sel.Sel].(*types.Func)
						if !ok {
							return true
						}
						sig := obj.Type().(*types.Signature)
						if sig.Recv() == nil {
							return true // package-level functions are handled as selector expressions below
						}
						to, ok := want[obj.FullName()]
						if !ok {
							return true
						}
						used[obj.FullName()] = true
						g.Rewrites = append(g.Rewrites, Rewrite{File: strings.TrimPrefix(fname, repoRoot()+"/"), Line: p.Fset.Position(n.Pos()).Line, From: obj.FullName(), To: to})
						n.Args = append([]ast.Expr{sel.X}, n.Args...)
						n.Fun = ast.NewIdent(to)
						changed = true
					case *ast.SelectorExpr:
						// any reference (call or value) to a package-level function
						obj, ok := p.TypesInfo.Uses[n.Sel].(*types.Func)
						if !ok || obj.Type().(*types.Signature).Recv() != nil {
							return true
						}
						to, ok := want[obj.FullName()]
						if !ok {
							return true
						}
						used[obj.FullName()] = true
						g.Rewrites = append(g.Rewrites, Rewrite{File: strings.TrimPrefix(fname, repoRoot()+"/"), Line: p.Fset.Position(n.Pos()).Line, From: obj.FullName(), To: to})
						cur.Replace(ast.NewIdent(to))
						changed = true
					}
					return true
				}, nil)
				if changed {
					var buf bytes.Buffer
					if err := format.Node(&buf, p.Fset, af); err != nil {
						return err
					}
					g.Overlay[fname] = fixUnusedImports(buf.Bytes())
				}
			}
		}
		for k := range want {
			if !used[k] {
				return fmt.Errorf("group %s: replacecall target %s is not referenced in the current tree", g.Name, k)
			}
		}
		pkgs, err = g.loadOnce("rt_sym.go.tmpl")
		if err != nil {
			return err
		}
	}
	prog, spkgs := ssautil.AllPackages(pkgs, ssa.InstantiateGenerics)
	prog.Build()
	g.Prog = prog
	g.SSAPkgs = map[string]*ssa.Package{}
	for i, sp := range spkgs {
		if sp != nil {
			g.SSAPkgs[pkgs[i].Name] = sp
		}
	}
	sort.Slice(g.Rewrites, func(i, j int) bool {
		if g.Rewrites[i].File != g.Rewrites[j].File {
			return g.Rewrites[i].File < g.Rewrites[j].File
		}
		return g.Rewrites[i].Line < g.Rewrites[j].Line
	})
	return nil
}

// fixUnusedImports drops imports that the rewriting left unused (Go rejects unused imports).
func fixUnusedImports(src []byte) []byte {
	fset := token.NewFileSet()
	af, err := parser.ParseFile(fset, "x.go", src, parser.ParseComments)
	if err != nil {
		return src
	}
	used := map[string]bool{}
	ast.Inspect(af, func(n ast.Node) bool {
		if sel, ok := n.(*ast.SelectorExpr); ok {
			if id, ok := sel.X.(*ast.Ident); ok {
				used[id.Name] = true
			}
		}
		return true
	})
	changed := false
	for _, d := range af.Decls {
		gd, ok := d.(*ast.GenDecl)
		if !ok || gd.Tok != token.IMPORT {
			continue
		}
		var keep []ast.Spec
		for _, s := range gd.Specs {
			is := s.(*ast.ImportSpec)
			path, _ := strconv.Unquote(is.Path.Value)
			name := filepath.Base(path)
			if is.Name != nil {
				name = is.Name.Name
			}
			if name == "_" || name == "." || used[name] {
				keep = append(keep, s)
			} else {
				// keep the import for its side effects / to stay add-only: blank it
				is.Name = ast.NewIdent("_")
				keep = append(keep, s)
				changed = true
			}
		}
		gd.Specs = keep
	}
	if !changed {
		return src
	}
	var buf bytes.Buffer
	if err := format.Node(&buf, fset, af); err != nil {
		return src
	}
	return buf.Bytes()
}
