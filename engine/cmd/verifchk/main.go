// verifchk: bounded symbolic checking of the gotlcp properties with the gosmt engine.
//
//	verifchk check <property> [--tier quick|thorough] [--only substr] [--workers n] [--novalidate]
//	verifchk replay <file>
//	verifchk list
package main

import (
	"crypto/sha256"
	"encoding/json"
	"flag"
	"fmt"
	"os"
	"path/filepath"
	"runtime/debug"
	"runtime/pprof"
	"sort"
	"strconv"
	"strings"
	"sync"
	"time"

	"golang.org/x/tools/go/ssa"

	"gosmt/exec"
	"gosmt/sym"
)

type HarnessRun struct {
	Meta   *Meta
	Group  *Group
	Fn     *ssa.Function
	Sh     *exec.Shared
	Budget int

	mu          sync.Mutex
	outstanding int
	started     int
	exhausted   bool
	timedOut    bool
	engineErr   string
	queries     int
	retries     int
	solverTime  time.Duration
	wall        time.Duration
	t0          time.Time
	validated   int
	valErr      string
}

type task struct {
	h      *HarnessRun
	prefix []int
}

type pool struct {
	mu       sync.Mutex
	cond     *sync.Cond
	order    []*HarnessRun
	stacks   map[*HarnessRun][][]int
	pending  int
	next     int
	busy     int
	inflight map[*HarnessRun]int
	tier     int
	prop     string
	deadline time.Time
}

func (p *pool) push(h *HarnessRun, prefixes ...[]int) {
	p.mu.Lock()
	if p.stacks == nil {
		p.stacks = map[*HarnessRun][][]int{}
	}
	if _, ok := p.stacks[h]; !ok {
		p.order = append(p.order, h)
	}
	p.stacks[h] = append(p.stacks[h], prefixes...)
	p.pending += len(prefixes)
	p.mu.Unlock()
	p.cond.Broadcast()
}

// pop hands out work round-robin over the harnesses (depth-first within one harness), so that a
// harness whose path count explodes cannot starve the others.
func (p *pool) pop() (task, bool) {
	p.mu.Lock()
	defer p.mu.Unlock()
	for p.pending == 0 {
		if p.busy == 0 {
			p.cond.Broadcast()
			return task{}, false
		}
		p.cond.Wait()
	}
	for i := 0; i < len(p.order); i++ {
		h := p.order[(p.next+i)%len(p.order)]
		st := p.stacks[h]
		if len(st) == 0 {
			continue
		}
		t := task{h, st[len(st)-1]}
		p.stacks[h] = st[:len(st)-1]
		p.pending--
		p.next = (p.next + i + 1) % len(p.order)
		p.busy++
		if p.inflight == nil {
			p.inflight = map[*HarnessRun]int{}
		}
		p.inflight[h]++
		return t, true
	}
	panic("pool: pending count out of sync")
}

func (p *pool) done(h *HarnessRun) {
	p.mu.Lock()
	p.busy--
	p.inflight[h]--
	p.mu.Unlock()
	p.cond.Broadcast()
}

// finished: no queued and no running path of this harness is left (and none can appear: new paths are pushed
// only by running paths of the same harness)
func (p *pool) finished(h *HarnessRun) bool {
	p.mu.Lock()
	defer p.mu.Unlock()
	return len(p.stacks[h]) == 0 && p.inflight[h] == 0
}

type workerState struct {
	m *exec.Machine
	s *sym.Solver
}

func solverBin() (string, []string) {
	if s := os.Getenv("VERIF_SOLVER"); s != "" {
		f := strings.Fields(s)
		return f[0], f[1:]
	}
	return "z3-new", []string{"-in", "-memory:3000"}
}

func (p *pool) worker(wid int, wg *sync.WaitGroup) {
	defer wg.Done()
	states := map[*HarnessRun]*workerState{}
	defer func() {
		for h, st := range states {
			h.mu.Lock()
			h.queries += st.s.Queries
			h.solverTime += st.s.Time
			h.mu.Unlock()
			st.s.Close()
		}
	}()
	for {
		t, ok := p.pop()
		if !ok {
			return
		}
		h := t.h
		h.mu.Lock()
		skip := h.exhausted || h.engineErr != ""
		if !skip && time.Now().After(p.deadline) {
			h.exhausted = true
			h.timedOut = true
			skip = true
		}
		if !skip {
			h.started++
			if h.started > h.Budget {
				h.exhausted = true
				skip = true
			}
		}
		h.mu.Unlock()
		if skip {
			p.done(h)
			continue
		}
		st := states[h]
		if st == nil {
			ctx := sym.NewCtx()
			bin, args := solverBin()
			s, err := sym.NewSolver(ctx, bin, args...)
			if err != nil {
				h.mu.Lock()
				h.engineErr = "cannot start solver: " + err.Error()
				h.mu.Unlock()
				p.done(h)
				continue
			}
			s.TimeoutS = h.Meta.TimeoutS
			if v, err := strconv.Atoi(os.Getenv("VERIF_QUERY_TIMEOUT")); err == nil && v > 0 {
				s.TimeoutS = v // per-query solver timeout in seconds (an unknown answer is retried once with 4x)
			}
			if d := os.Getenv("VERIF_SMTLOG"); d != "" {
				f, _ := os.Create(filepath.Join(d, fmt.Sprintf("%s-w%d.smt2", h.Meta.Name, wid)))
				s.Log = f
			}
			s.Init()
			s.Incr = true
			m := exec.NewMachine(ctx, s, h.Group.Prog)
			m.Sh = h.Sh
			m.Name = h.Meta.Name
			m.Tier = p.tier
			m.Prop = p.prop
			m.Unwind = h.Meta.Unwind
			m.MaxDepth = h.Meta.Depth
			m.SplitBounds = h.Meta.Split
			if h.Meta.Spin != "" && strings.HasPrefix(h.Meta.Spin, p.prop+".") {
				m.SpinID = h.Meta.Spin
			}
			m.Harness = h.Fn.Pkg
			for _, sp := range h.Group.SSAPkgs {
				m.OwnPkgs[sp] = true
			}
			st = &workerState{m, s}
			states[h] = st
		}
		var alts [][]int
		func() {
			defer func() {
				if r := recover(); r != nil {
					h.mu.Lock()
					if h.engineErr == "" {
						h.engineErr = fmt.Sprintf("%v (at %s)", r, st.m.Where())
					}
					h.mu.Unlock()
				}
			}()
			alts = st.m.RunPath(h.Fn, t.prefix)
		}()
		if len(alts) > 0 {
			p.push(h, alts...)
		}
		h.mu.Lock()
		h.wall = time.Since(h.t0)
		h.mu.Unlock()
		p.done(h)
		// release the solver processes and machines of harnesses that are finished
		for fh, st := range states {
			if p.finished(fh) {
				fh.mu.Lock()
				fh.queries += st.s.Queries
				fh.retries += st.s.Retries
				fh.solverTime += st.s.Time
				fh.mu.Unlock()
				st.s.Close()
				delete(states, fh)
			}
		}
	}
}

// ---- known findings

type Finding struct {
	Property string           `json:"property"`
	Finding  string           `json:"finding"`
	Harness  string           `json:"harness"`
	ID       string           `json:"id"`
	Tags     map[string]int64 `json:"tags"`
	Status   string           `json:"status"`
	Commit   string           `json:"commit,omitempty"`
	What     string           `json:"what"`
}

func loadFindings() []Finding {
	var f struct {
		Findings []Finding `json:"findings"`
	}
	b, err := os.ReadFile(filepath.Join(verifRoot(), "known_findings.json"))
	if err != nil {
		return nil
	}
	if err := json.Unmarshal(b, &f); err != nil {
		fmt.Println("CHECK-BROKEN known_findings.json does not parse:", err)
		os.Exit(2)
	}
	return f.Findings
}

func matchFinding(fs []Finding, prop string, v exec.Violation) *Finding {
	for i := range fs {
		f := &fs[i]
		if f.Status != "known" || f.Property != prop {
			continue
		}
		if f.Harness != "" && !strings.Contains(v.Harness, f.Harness) {
			continue
		}
		if f.ID != "" && !strings.HasPrefix(v.ID, f.ID) {
			continue
		}
		ok := true
		for k, val := range f.Tags {
			if got, has := v.Tags[k]; !has || got != val {
				ok = false
			}
		}
		if ok {
			return f
		}
	}
	return nil
}

// ---- main

func main() {
	debug.SetGCPercent(400) // the interpreter allocates short-lived values; memory is plentiful
	if pf := os.Getenv("VERIF_PROF"); pf != "" {
		f, _ := os.Create(pf)
		pprof.StartCPUProfile(f)
		defer pprof.StopCPUProfile()
	}
	if len(os.Args) < 2 {
		fmt.Println("usage: verifchk check <property> [--tier quick|thorough] | replay <file> | list")
		os.Exit(2)
	}
	switch os.Args[1] {
	case "check":
		rc := cmdCheck(os.Args[2:])
		pprof.StopCPUProfile()
		os.Exit(rc)
	case "replay":
		os.Exit(cmdReplay(os.Args[2:]))
	case "list":
		gs, err := discover()
		if err != nil {
			fmt.Println(err)
			os.Exit(2)
		}
		for _, g := range gs {
			for _, m := range g.Metas {
				fmt.Printf("%-10s %-6s %-44s props=%v reach=%v\n", g.Name, m.Pkg, m.Name, m.Props, m.Reach)
			}
		}
	default:
		fmt.Println("unknown command", os.Args[1])
		os.Exit(2)
	}
}

func has(xs []string, x string) bool {
	for _, y := range xs {
		if x == y {
			return true
		}
	}
	return false
}

type CEFile struct {
	Property string
	Group    string
	Pkg      string
	Harness  string
	ID       string
	Kind     string
	Msg      string
	Where    string
	Tags     map[string]int64
	Tier     string
	RepoHead string
	Stream   []exec.StreamRec
}

func cmdCheck(args []string) int {
	fs := flag.NewFlagSet("check", flag.ExitOnError)
	tier := fs.String("tier", "", "quick or thorough")
	only := fs.String("only", "", "substring filter on harness names")
	workers := fs.Int("workers", 16, "parallel workers")
	novalidate := fs.Bool("novalidate", false, "skip translator validation against the native build")
	noevidence := fs.Bool("noevidence", false, "do not write the evidence file")
	verbose := fs.Bool("v", false, "verbose")
	maxwall := fs.Int("maxwall", 0, "wall-clock limit for exploration in seconds (default 900 quick, 14400 thorough)")
	var prop string
	if len(args) > 0 && !strings.HasPrefix(args[0], "-") {
		prop = args[0]
		args = args[1:]
	}
	fs.Parse(args)
	if prop == "" && fs.NArg() > 0 {
		prop = fs.Arg(0)
	}
	if *tier == "" {
		*tier = os.Getenv("VERIF_TIER")
	}
	if *tier != "thorough" {
		*tier = "quick"
	}
	seed, _ := strconv.ParseInt(os.Getenv("VERIF_SEED"), 10, 64)
	t0 := time.Now()

	broken := func(format string, a ...interface{}) int {
		fmt.Printf("CHECK-BROKEN property=%s %s\n", prop, fmt.Sprintf(format, a...))
		return 2
	}
	groups, err := discover()
	if err != nil {
		return broken("harness discovery failed: %v", err)
	}
	var sel []*Group
	for _, g := range groups {
		var ms []*Meta
		for _, m := range g.Metas {
			if has(m.Props, prop) && m.Tiers[*tier] && strings.Contains(m.Name, *only) {
				ms = append(ms, m)
			}
		}
		if len(ms) > 0 {
			g2 := *g
			g2.selected = ms
			sel = append(sel, &g2)
		}
	}
	if len(sel) == 0 {
		return broken("no harness registered for this property and tier")
	}
	work, err := os.MkdirTemp(verifRoot(), ".work-")
	if err != nil {
		return broken("cannot create work dir: %v", err)
	}
	defer os.RemoveAll(work)

	// load all groups in parallel
	var lwg sync.WaitGroup
	lerrs := make([]error, len(sel))
	for i, g := range sel {
		lwg.Add(1)
		go func(i int, g *Group) {
			defer lwg.Done()
			t := time.Now()
			lerrs[i] = g.Load()
			g.LoadS = time.Since(t).Seconds()
		}(i, g)
	}
	lwg.Wait()
	for i, e := range lerrs {
		if e != nil {
			// a harness that no longer compiles against the tree is a machinery failure, not a verdict
			return broken("group %s: %v", sel[i].Name, e)
		}
	}
	native := newNative(work)
	// start native builds in the background (needed for validation and replays)
	var nwg sync.WaitGroup
	if !*novalidate {
		for _, g := range sel {
			pk := map[string]bool{}
			for _, m := range g.selected {
				pk[m.Pkg] = true
			}
			for p := range pk {
				nwg.Add(1)
				go func(g *Group, p string) { defer nwg.Done(); native.binary(g, p) }(g, p)
			}
		}
	}

	p := &pool{prop: prop}
	p.cond = sync.NewCond(&p.mu)
	if *tier == "thorough" {
		p.tier = 1
	}
	if *maxwall == 0 {
		*maxwall = 1200
		if *tier == "thorough" {
			*maxwall = 14400
		}
	}
	p.deadline = time.Now().Add(time.Duration(*maxwall) * time.Second)
	var runs []*HarnessRun
	for _, g := range sel {
		for _, m := range g.selected {
			sp := g.SSAPkgs[m.Pkg]
			if sp == nil || sp.Func(m.Name) == nil {
				return broken("harness %s not found in SSA package %s", m.Name, m.Pkg)
			}
			h := &HarnessRun{Meta: m, Group: g, Fn: sp.Func(m.Name), Sh: exec.NewShared(), Budget: m.Paths, t0: time.Now()}
			if *tier == "thorough" {
				h.Budget = m.PathsThorough
			}
			runs = append(runs, h)
			p.push(h, nil)
		}
	}
	var wg sync.WaitGroup
	for w := 0; w < *workers; w++ {
		wg.Add(1)
		go p.worker(w, &wg)
	}
	wg.Wait()
	nwg.Wait()

	// ---- translator validation: random concrete traces, native vs engine
	if !*novalidate {
		var vwg sync.WaitGroup
		sem := make(chan struct{}, *workers)
		for _, h := range runs {
			if h.engineErr != "" {
				continue
			}
			for k := 0; k < h.Meta.Validate; k++ {
				vwg.Add(1)
				go func(h *HarnessRun, k int) {
					defer vwg.Done()
					sem <- struct{}{}
					defer func() { <-sem }()
					validateOne(native, h, *tier, p.tier, seed*131+int64(k))
				}(h, k)
			}
		}
		vwg.Wait()
	}

	// ---- collect results
	findings := loadFindings()
	exit := 0
	type hres struct {
		Harness      string            `json:"harness"`
		Package      string            `json:"package"`
		Group        string            `json:"group"`
		Paths        int               `json:"paths"`
		Queries      int               `json:"solver_queries"`
		SolverS      float64           `json:"solver_time_s"`
		WallS        float64           `json:"wall_s"`
		Instrs       int               `json:"ssa_instructions_executed"`
		Forks        int               `json:"forks"`
		Asserts      map[string]int    `json:"assertions_discharged"`
		Reached      map[string]int    `json:"reach_witnesses"`
		Bounds       map[string]string `json:"case_split_bounds"`
		Unwind       int               `json:"unwind_bound"`
		UnwindHits   int               `json:"unwinding_assertion_failures"`
		Inconclusive map[string]int    `json:"inconclusive,omitempty"`
		Validated    int               `json:"traces_validated_against_impl"`
		Funcs        []string          `json:"functions_encoded"`
		Foreign      []string          `json:"uninitialised_foreign_globals_read,omitempty"`
	}
	var hrs []hres
	totPaths, totQueries, totValidated := 0, 0, 0
	totSolver := 0.0
	var samples []interface{}
	funcSet := map[string]bool{}
	var rewrites []Rewrite
	seenKnown := map[string]bool{}
	var knownSeen []string
	nviol := 0
	repoHead := gitHead()
	for _, g := range sel {
		rewrites = append(rewrites, g.Rewrites...)
	}
	for _, h := range runs {
		sh := h.Sh
		if h.engineErr != "" {
			fmt.Printf("CHECK-BROKEN property=%s harness=%s engine error: %s\n", prop, h.Meta.Name, h.engineErr)
			if exit != 1 {
				exit = 2
			}
		}
		if h.timedOut {
			fmt.Printf("CHECK-BROKEN property=%s harness=%s wall-clock limit %ds reached after %d paths (bound insufficient)\n", prop, h.Meta.Name, *maxwall, sh.Stats.Paths)
			if exit != 1 {
				exit = 2
			}
		} else if h.exhausted {
			fmt.Printf("CHECK-BROKEN property=%s harness=%s path budget %d exhausted (bound insufficient)\n", prop, h.Meta.Name, h.Budget)
			if exit != 1 {
				exit = 2
			}
		}
		if sh.Stats.UnwindHits > 0 || sh.Stats.DepthHits > 0 {
			fmt.Printf("CHECK-BROKEN property=%s harness=%s unwinding assertion failed on %d paths (loop bound %d / depth %d insufficient)\n", prop, h.Meta.Name, sh.Stats.UnwindHits+sh.Stats.DepthHits, h.Meta.Unwind, h.Meta.Depth)
			if exit != 1 {
				exit = 2
			}
		}
		if len(sh.Inconcl) > 0 {
			fmt.Printf("CHECK-BROKEN property=%s harness=%s inconclusive solver answers: %v\n", prop, h.Meta.Name, sh.Inconcl)
			if exit != 1 {
				exit = 2
			}
		}
		if h.valErr != "" {
			fmt.Printf("CHECK-BROKEN property=%s harness=%s translator validation: %s\n", prop, h.Meta.Name, h.valErr)
			if exit != 1 {
				exit = 2
			}
		}
		for _, r := range h.Meta.Reach {
			if sh.Reached[r] == 0 && h.engineErr == "" {
				fmt.Printf("CHECK-BROKEN property=%s harness=%s vacuity witness %q not reachable\n", prop, h.Meta.Name, r)
				if exit != 1 {
					exit = 2
				}
			}
		}
		// violations
		sort.Slice(sh.Violations, func(i, j int) bool { return sh.Violations[i].ID < sh.Violations[j].ID })
		for _, v := range sh.Violations {
			if (v.Kind == "assert" || v.Kind == "spin") && !strings.HasPrefix(v.ID, prop+".") {
				continue // belongs to another property's check
			}
			ce := CEFile{Property: prop, Group: h.Group.Name, Pkg: h.Meta.Pkg, Harness: v.Harness, ID: v.ID, Kind: v.Kind, Msg: v.Msg, Where: v.Where, Tags: v.Tags, Tier: *tier, RepoHead: repoHead, Stream: v.Stream}
			b, _ := json.MarshalIndent(ce, "", " ")
			sum := sha256.Sum256(b)
			rdir := filepath.Join(verifRoot(), "replays", prop)
			os.MkdirAll(rdir, 0755)
			rfile := filepath.Join(rdir, fmt.Sprintf("%s-%x.json", strings.TrimPrefix(v.Harness, "VerifHarness_"), sum[:5]))
			os.WriteFile(rfile, b, 0644)
			o, err := native.Replay(h.Group, h.Meta.Pkg, rfile, *tier)
			reproduced := false
			detail := ""
			if err != nil {
				detail = err.Error()
			} else {
				switch v.Kind {
				case "assert":
					reproduced = has(o.Failed, v.ID)
					detail = fmt.Sprintf("native status=%s failed=%v panic=%q", o.Status, o.Failed, o.Panic)
				case "panic":
					reproduced = o.Status == "panic"
					detail = fmt.Sprintf("native status=%s panic=%q", o.Status, o.Panic)
				case "spin":
					reproduced = o.Status == "hang"
					detail = fmt.Sprintf("native status=%s (the native run is killed after 20 s)", o.Status)
				}
			}
			if !reproduced {
				fmt.Printf("INCONCLUSIVE property=%s harness=%s %s %s: counterexample did not reproduce natively (%s) replay=%s\n", prop, v.Harness, v.Kind, v.ID, detail, rfile)
				if exit != 1 {
					exit = 2
				}
				continue
			}
			if f := matchFinding(findings, prop, v); f != nil {
				key := f.Finding + "|" + f.What
				if !seenKnown[key] {
					seenKnown[key] = true
					fmt.Printf("KNOWN-FINDING: property=%s %s: %s\n", prop, f.Finding, f.What)
					knownSeen = append(knownSeen, f.Finding)
				}
				os.Remove(rfile)
				continue
			}
			nviol++
			fmt.Printf("VIOLATION property=%s replay=%s\n", prop, rfile)
			fmt.Printf("  harness=%s %s %s tags=%v %s\n  %s\n", v.Harness, v.Kind, v.ID, v.Tags, v.Msg, detail)
			exit = 1 // a natively reproduced violation is a verdict whatever else went wrong
		}
		hr := hres{Harness: h.Meta.Name, Package: h.Meta.Pkg, Group: h.Group.Name, Paths: sh.Stats.Paths, Queries: h.queries, SolverS: round3(h.solverTime.Seconds()), WallS: round3(h.wall.Seconds()),
			Instrs: sh.Stats.Instrs, Forks: sh.Stats.Forks, Asserts: sh.Asserts, Reached: sh.Reached, Bounds: map[string]string{}, Unwind: h.Meta.Unwind, UnwindHits: sh.Stats.UnwindHits + sh.Stats.DepthHits, Validated: h.validated}
		if len(sh.Inconcl) > 0 {
			hr.Inconclusive = sh.Inconcl
		}
		for k, b := range sh.Bounds {
			hr.Bounds[k] = fmt.Sprintf("%d..%d", b[0], b[1])
		}
		for f := range sh.Funcs {
			hr.Funcs = append(hr.Funcs, f)
			funcSet[f] = true
		}
		sort.Strings(hr.Funcs)
		for f := range sh.ForeignGlobals {
			hr.Foreign = append(hr.Foreign, f)
		}
		sort.Strings(hr.Foreign)
		hrs = append(hrs, hr)
		totPaths += sh.Stats.Paths
		totQueries += h.queries
		totSolver += h.solverTime.Seconds()
		totValidated += h.validated
		for i, s := range sh.Samples {
			if i >= 2 {
				break
			}
			samples = append(samples, map[string]interface{}{"harness": h.Meta.Name, "witness": s.Reach, "inputs": compactStream(s.Stream)})
		}
		if *verbose {
			rt := ""
			if h.retries > 0 {
				rt = fmt.Sprintf(" retried=%d", h.retries)
			}
			fmt.Printf("  %-46s paths=%-6d queries=%-7d solver=%.1fs wall=%.1fs%s reached=%v\n", h.Meta.Name, sh.Stats.Paths, h.queries, h.solverTime.Seconds(), h.wall.Seconds(), rt, sh.Reached)
		}
	}
	if len(samples) == 0 {
		samples = append(samples, map[string]interface{}{"note": "no reach witness produced"})
	}
	var funcs []string
	for f := range funcSet {
		funcs = append(funcs, f)
	}
	sort.Strings(funcs)
	wall := time.Since(t0).Seconds()
	if !*noevidence {
		ev := map[string]interface{}{
			"property_id": prop,
			"tier":        *tier,
			"seed":        seed,
			"level":       "model_checking",
			"wall_s":      round3(wall),
			"violations":  nviol,
			"coverage": map[string]interface{}{
				"states":                        max1(totPaths),
				"transitions":                   max1(totQueries),
				"traces_validated_against_impl": totValidated,
				"samples":                       samples,
				"explanation":                   "states = feasible paths explored symbolically through the real code (each path covers every value of its symbolic inputs); transitions = solver queries (branch feasibility, panic conditions, assertions); every assertion was decided by z3 on each path within the listed case-split bounds and unwinding limits; values outside the bounds are outside the claim",
				"functions_encoded":             funcs,
				"harnesses":                     hrs,
				"rewrites":                      rewrites,
				"solver":                        solverVersion(),
				"solver_time_s":                 round3(totSolver),
				"known_findings_seen":           knownSeen,
				"repo_head":                     repoHead,
				"exit":                          exit,
			},
			"assumptions": assumptionsFor(sel),
		}
		b, _ := json.MarshalIndent(ev, "", " ")
		os.MkdirAll(filepath.Join(verifRoot(), "evidence"), 0755)
		if err := os.WriteFile(filepath.Join(verifRoot(), "evidence", prop+".json"), b, 0644); err != nil {
			return broken("cannot write evidence: %v", err)
		}
	}
	fmt.Printf("property=%s tier=%s harnesses=%d paths=%d queries=%d solver=%.1fs wall=%.1fs validated=%d exit=%d\n", prop, *tier, len(runs), totPaths, totQueries, totSolver, wall, totValidated, exit)
	return exit
}

func max1(n int) int {
	if n < 1 {
		return 1
	}
	return n
}

func round3(f float64) float64 { return float64(int(f*1000+0.5)) / 1000 }

func compactStream(st []exec.StreamRec) []string {
	var out []string
	for i, r := range st {
		if i >= 24 {
			out = append(out, "…")
			break
		}
		if r.Bytes != nil {
			b := r.Bytes
			suffix := ""
			if len(b) > 48 {
				b = b[:48]
				suffix = fmt.Sprintf("…(%d bytes)", len(r.Bytes))
			}
			out = append(out, fmt.Sprintf("%s=%x%s", r.Tag, b, suffix))
		} else {
			out = append(out, fmt.Sprintf("%s=%d", r.Tag, int64(r.Val)))
		}
	}
	return out
}

// validateOne runs one random concrete trace natively and through the engine and compares the logs.
func validateOne(native *Native, h *HarnessRun, tier string, tierN int, seed int64) {
	var o *Outcome
	for try := 0; try < 25; try++ {
		var err error
		o, err = native.Random(h.Group, h.Meta.Pkg, h.Meta.Name, tier, seed*1000+int64(try))
		if err != nil {
			h.mu.Lock()
			h.valErr = err.Error()
			h.mu.Unlock()
			return
		}
		if o.Status == "hang" {
			return // a hanging native run is not a trace (a non-progress defect shows up as a spin violation)
		}
		if o.Status != "assume" && o.Status != "mismatch" {
			break
		}
		o = nil // the random draw fell outside the harness's assumptions: not a trace
	}
	if o == nil {
		return
	}
	ctx := sym.NewCtx()
	m := exec.NewMachine(ctx, nil, h.Group.Prog)
	m.Name = h.Meta.Name
	m.Tier = tierN
	m.Unwind = 1 << 30
	m.MaxDepth = h.Meta.Depth
	m.Harness = h.Fn.Pkg
	m.Concrete = o.Stream
	if m.Concrete == nil {
		m.Concrete = []exec.StreamRec{}
	}
	var engErr string
	func() {
		defer func() {
			if r := recover(); r != nil {
				engErr = fmt.Sprint(r)
			}
		}()
		m.RunPath(h.Fn, nil)
	}()
	h.mu.Lock()
	defer h.mu.Unlock()
	if engErr != "" {
		h.valErr = "engine error on a concrete trace: " + engErr
		return
	}
	nl, el := strings.Join(o.Log, " "), strings.Join(m.Log, " ")
	if nl != el {
		h.valErr = fmt.Sprintf("native and engine disagree on a concrete trace (seed %d):\n   native: %s\n   engine: %s", seed, tail(nl, 400), tail(el, 400))
		return
	}
	h.validated++
}

func cmdReplay(args []string) int {
	if len(args) < 1 {
		fmt.Println("usage: verifchk replay <file>")
		return 2
	}
	b, err := os.ReadFile(args[0])
	if err != nil {
		fmt.Println(err)
		return 2
	}
	var ce CEFile
	if err := json.Unmarshal(b, &ce); err != nil {
		fmt.Println(err)
		return 2
	}
	groups, err := discover()
	if err != nil {
		fmt.Println(err)
		return 2
	}
	for _, g := range groups {
		if g.Name != ce.Group {
			continue
		}
		if err := g.buildOverlay(); err != nil {
			fmt.Println(err)
			return 2
		}
		if len(g.Calls) > 0 {
			if err := g.Load(); err != nil {
				fmt.Println(err)
				return 2
			}
		}
		work, _ := os.MkdirTemp(verifRoot(), ".work-")
		defer os.RemoveAll(work)
		n := newNative(work)
		abs, _ := filepath.Abs(args[0])
		o, err := n.Replay(g, ce.Pkg, abs, ce.Tier)
		if err != nil {
			fmt.Println("replay failed to run:", err)
			return 2
		}
		fmt.Printf("replay of %s %s (%s) in package %s: native status=%s failed-assertions=%v panic=%q\n", ce.Harness, ce.ID, ce.Kind, ce.Pkg, o.Status, o.Failed, o.Panic)
		for _, r := range compactStream(ce.Stream) {
			fmt.Println("   ", r)
		}
		if (ce.Kind == "assert" && has(o.Failed, ce.ID)) || (ce.Kind == "panic" && o.Status == "panic") || (ce.Kind == "spin" && o.Status == "hang") {
			fmt.Println("REPRODUCED")
			return 1
		}
		fmt.Println("NOT REPRODUCED on the current tree")
		return 0
	}
	fmt.Println("group not found:", ce.Group)
	return 2
}
