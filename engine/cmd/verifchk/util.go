package main

import (
	"os"
	osexec "os/exec"
	"sort"
	"strings"
)

func gitHead() string {
	cmd := osexec.Command("git", "-C", repoRoot(), "rev-parse", "--short", "HEAD")
	out, err := cmd.Output()
	if err != nil {
		return "unknown"
	}
	h := strings.TrimSpace(string(out))
	st, _ := osexec.Command("git", "-C", repoRoot(), "status", "--porcelain", "--untracked-files=no").Output()
	if len(strings.TrimSpace(string(st))) > 0 {
		h += "+dirty"
	}
	return h
}

func solverVersion() string {
	bin, _ := solverBin()
	out, err := osexec.Command(bin, "--version").Output()
	if err != nil {
		return bin
	}
	return strings.TrimSpace(string(out))
}

// assumptionsFor collects the //verif:assume lines of the selected harness files plus the global ones.
func assumptionsFor(sel []*Group) []string {
	set := map[string]bool{
		"bounded claim: every case-split range, buffer length and unwinding limit listed under coverage.harnesses is a bound; values outside are outside the claim":                                  true,
		"go/ssa (x/tools v0.29.0) lowering and the gosmt interpreter are trusted; they are validated on each run against the native build on random concrete traces (traces_validated_against_impl)": true,
		"z3 is trusted for unsat answers; sat answers are replayed natively before being reported":                                                                                                   true,
		"single sequential goroutine: no scheduler or memory-model reasoning":                                                                                                                        true,
	}
	for _, g := range sel {
		seen := map[string]bool{}
		for _, m := range g.selected {
			if seen[m.File] {
				continue
			}
			seen[m.File] = true
			b, _ := os.ReadFile(m.File)
			for _, line := range strings.Split(string(b), "\n") {
				line = strings.TrimSpace(line)
				if strings.HasPrefix(line, "//verif:assume ") {
					set[strings.TrimPrefix(line, "//verif:assume ")] = true
				}
			}
		}
	}
	var out []string
	for k := range set {
		out = append(out, k)
	}
	sort.Strings(out)
	return out
}
