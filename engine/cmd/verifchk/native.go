package main

import (
	"encoding/json"
	"fmt"
	"os"
	osexec "os/exec"
	"path/filepath"
	"strings"
	"sync"
	"time"

	"gosmt/exec"
)

// Native builds one `go test -c` binary per (group, package) from the same overlay the symbolic
// run used, with the native runtime instead of the intercepted stubs.
type Native struct {
	mu   sync.Mutex
	bins map[string]string
	errs map[string]error
	work string
}

func newNative(work string) *Native {
	return &Native{bins: map[string]string{}, errs: map[string]error{}, work: work}
}

func (n *Native) binary(g *Group, pkg string) (string, error) {
	key := g.Name + "/" + pkg
	n.mu.Lock()
	defer n.mu.Unlock()
	if b, ok := n.bins[key]; ok {
		return b, n.errs[key]
	}
	dir := filepath.Join(n.work, "native-"+g.Name+"-"+pkg)
	os.MkdirAll(dir, 0755)
	repl := map[string]string{}
	k := 0
	put := func(virtual string, content []byte) {
		k++
		p := filepath.Join(dir, fmt.Sprintf("f%03d_%s", k, filepath.Base(virtual)))
		os.WriteFile(p, content, 0644)
		repl[virtual] = p
	}
	for v, c := range g.Overlay {
		put(v, c)
	}
	for _, p := range g.Pkgs {
		put(filepath.Join(repoRoot(), p, "zz_verif_rt.go"), rtTemplate("rt_native.go.tmpl", p))
	}
	var reg strings.Builder
	reg.Write(rtTemplate("replay_test.go.tmpl", pkg))
	reg.WriteString("\nvar verifHarnesses = map[string]func(){\n")
	for _, m := range g.Metas {
		if m.Pkg == pkg {
			fmt.Fprintf(&reg, "\t%q: %s,\n", m.Name, m.Name)
		}
	}
	reg.WriteString("}\n")
	put(filepath.Join(repoRoot(), pkg, "zz_verif_replay_test.go"), []byte(reg.String()))
	ob, _ := json.Marshal(map[string]interface{}{"Replace": repl})
	op := filepath.Join(dir, "overlay.json")
	os.WriteFile(op, ob, 0644)
	bin := filepath.Join(dir, pkg+".test")
	cmd := osexec.Command("go", "test", "-c", "-o", bin, "-tags", "verif", "-vet=off", "-overlay", op, "./"+pkg)
	cmd.Dir = repoRoot()
	cmd.Env = append(os.Environ(), "GOFLAGS=-mod=mod", "GOPROXY=off")
	out, err := cmd.CombinedOutput()
	if err != nil {
		err = fmt.Errorf("native build of %s failed: %v\n%s", key, err, out)
	}
	n.bins[key] = bin
	n.errs[key] = err
	return bin, err
}

// hangLimit: a native replay or validation run that is still going after this long counts as a hang
const hangLimit = 20 * time.Second

type Outcome struct {
	Harness string
	File    string
	Status  string
	Failed  []string
	Panic   string
	Log     []string
	Stream  []exec.StreamRec
}

func (n *Native) run(g *Group, pkg, test string, env []string) (*Outcome, string, error) {
	bin, err := n.binary(g, pkg)
	if err != nil {
		return nil, "", err
	}
	outf, _ := os.CreateTemp(n.work, "out*.json")
	outf.Close()
	defer os.Remove(outf.Name())
	cmd := osexec.Command(bin, "-test.run", "^"+test+"$", "-test.timeout", "120s")
	cmd.Dir = filepath.Join(repoRoot(), pkg)
	cmd.Env = append(append(os.Environ(), "VERIF_OUT="+outf.Name()), env...)
	done := make(chan struct{})
	var out []byte
	go func() { out, _ = cmd.CombinedOutput(); close(done) }()
	hung := false
	select {
	case <-done:
	case <-time.After(hangLimit):
		cmd.Process.Kill()
		<-done
		hung = true
	}
	if hung {
		return &Outcome{Status: "hang"}, string(out), nil
	}
	data, _ := os.ReadFile(outf.Name())
	var outs []Outcome
	if err := json.Unmarshal(data, &outs); err != nil || len(outs) != 1 {
		return nil, string(out), fmt.Errorf("native run produced no outcome: %s", tail(string(out), 600))
	}
	return &outs[0], string(out), nil
}

func tail(s string, n int) string {
	if len(s) > n {
		return "…" + s[len(s)-n:]
	}
	return s
}

// Replay runs the counterexample file natively and reports whether it reproduces.
func (n *Native) Replay(g *Group, pkg, file, tier string) (*Outcome, error) {
	o, _, err := n.run(g, pkg, "TestVerifReplay", []string{"VERIF_REPLAY_FILE=" + file, "VERIF_TIER=" + tier})
	return o, err
}

func (n *Native) Random(g *Group, pkg, harness, tier string, seed int64) (*Outcome, error) {
	o, _, err := n.run(g, pkg, "TestVerifRandom", []string{"VERIF_HARNESS=" + harness, "VERIF_TIER=" + tier, fmt.Sprintf("VERIF_SEED=%d", seed)})
	return o, err
}
