package main

import (
	"bytes"
	"encoding/json"
	osexec "os/exec"
	"go/ast"
	"go/format"
	"go/parser"
	"go/token"
	"flag"
	"fmt"
	"os"
	"path/filepath"
	"sort"
	"strings"
	"time"

	"golang.org/x/tools/go/packages"
	"golang.org/x/tools/go/ssa"
	"golang.org/x/tools/go/ssa/ssautil"

	"gosmt/exec"
	"gosmt/sym"
)

func main() {
	repo := flag.String("repo", "/repo", "repository root")
	hdir := flag.String("harness", "", "harness dir with <pkg>/*.go")
	run := flag.String("run", "", "substring filter of harness names")
	maxPaths := flag.Int("paths", 20000, "path budget per harness")
	unwind := flag.Int("unwind", 300, "loop bound")
	trace := flag.Bool("trace", false, "trace path ends")
	smtlog := flag.String("smtlog", "", "write SMT-LIB to file")
	split := flag.Bool("split", false, "case-split symbolic slice bounds over small concrete buffers")
	doReplay := flag.Bool("replay", false, "replay counterexamples natively with go test -overlay")
	incr := flag.Bool("incr", true, "incremental solver stack")
	flag.Parse()

	overlay := map[string][]byte{}
	var pats []string
	pkgDirs, _ := os.ReadDir(*hdir)
	for _, d := range pkgDirs {
		if !d.IsDir() {
			continue
		}
		files, _ := filepath.Glob(filepath.Join(*hdir, d.Name(), "*.go"))
		for _, f := range files {
			b, _ := os.ReadFile(f)
			overlay[filepath.Join(*repo, d.Name(), "zz_verif_"+filepath.Base(f))] = b
		}
		pats = append(pats, "./"+d.Name())
		// cuts: "//verif:replace Recv.Method" or "//verif:replace Func" renames the repo declaration to <name>__orig
		repl := map[string]bool{}
		for _, f := range files {
			b, _ := os.ReadFile(f)
			for _, line := range strings.Split(string(b), "\n") {
				if strings.HasPrefix(line, "//verif:replace ") {
					repl[strings.TrimSpace(strings.TrimPrefix(line, "//verif:replace "))] = true
				}
			}
		}
		if len(repl) > 0 {
			srcs, _ := filepath.Glob(filepath.Join(*repo, d.Name(), "*.go"))
			for _, src := range srcs {
				if strings.HasSuffix(src, "_test.go") {
					continue
				}
				fset := token.NewFileSet()
				af, err := parser.ParseFile(fset, src, nil, parser.ParseComments)
				if err != nil {
					panic(err)
				}
				changed := false
				for _, decl := range af.Decls {
					fd, ok := decl.(*ast.FuncDecl)
					if !ok {
						continue
					}
					key := fd.Name.Name
					if fd.Recv != nil && len(fd.Recv.List) == 1 {
						t := fd.Recv.List[0].Type
						if st, ok := t.(*ast.StarExpr); ok {
							t = st.X
						}
						if id, ok := t.(*ast.Ident); ok {
							key = id.Name + "." + fd.Name.Name
						}
					}
					if repl[key] {
						fd.Name.Name += "__orig"
						changed = true
						fmt.Println("cut:", src, key)
					}
				}
				if changed {
					var buf bytes.Buffer
					if err := format.Node(&buf, fset, af); err != nil {
						panic(err)
					}
					overlay[src] = buf.Bytes()
				}
			}
		}
	}
	t0 := time.Now()
	cfg := &packages.Config{Mode: packages.LoadAllSyntax, Dir: *repo, Env: append(os.Environ(), "GOFLAGS=-mod=mod", "GOPROXY=off"),
		BuildFlags: []string{"-tags=verif"}, Overlay: overlay}
	pkgs, err := packages.Load(cfg, pats...)
	if err != nil {
		panic(err)
	}
	if packages.PrintErrors(pkgs) > 0 {
		os.Exit(2)
	}
	prog, spkgs := ssautil.AllPackages(pkgs, ssa.InstantiateGenerics)
	prog.Build()
	fmt.Printf("loaded+built in %v\n", time.Since(t0).Round(time.Millisecond))

	for _, sp := range spkgs {
		var names []string
		for n, mem := range sp.Members {
			if _, ok := mem.(*ssa.Function); ok && strings.HasPrefix(n, "VerifHarness_") && strings.Contains(n, *run) {
				names = append(names, n)
			}
		}
		sort.Strings(names)
		for _, n := range names {
			ctx := sym.NewCtx()
			solver, err := sym.NewSolver(ctx, "z3", "-in")
			if err != nil {
				panic(err)
			}
			if *smtlog != "" {
				f, _ := os.Create(*smtlog)
				solver.Log = f
			}
			solver.Init()
			solver.Incr = *incr
			m := exec.NewMachine(ctx, solver, prog)
			m.Unwind = *unwind
			m.Harness = sp
			m.SplitBounds = *split
			m.Trace = *trace
			t1 := time.Now()
			func() {
				defer func() {
					if r := recover(); r != nil {
						fmt.Printf("  ENGINE ERROR: %v\n", r)
					}
				}()
				m.Explore(sp.Func(n), *maxPaths)
			}()
			fmt.Printf("%s.%s: paths=%d instrs=%d branches=%d forks=%d unwindhits=%d queries=%d solver=%v wall=%v terms=%d\n",
				sp.Pkg.Name(), n, m.Stats.Paths, m.Stats.Instrs, m.Stats.Branches, m.Stats.Forks, m.Stats.UnwindHits, solver.Queries, solver.Time.Round(time.Millisecond), time.Since(t1).Round(time.Millisecond), len(ctx.Terms))
			fmt.Printf("  slow queries (>150ms): %d totalling %v\n", solver.Slow, solver.SlowTime.Round(time.Millisecond))
			var rk []string
			for k, v := range m.Reached {
				rk = append(rk, fmt.Sprintf("%s=%d", k, v))
			}
			sort.Strings(rk)
			fmt.Printf("  reached: %v\n", rk)
			for _, v := range m.Violations {
				fmt.Printf("  VIOLATION %s %s %s where=%s model=%v\n", v.Kind, v.ID, v.Msg, v.Where, v.Model)
				if *doReplay {
					replayNative(*repo, *hdir, sp.Pkg.Name(), n, v)
				}
			}
			solver.Close()
		}
	}
}

func replayNative(repo, hdir, pkg, harness string, v exec.Violation) {
	dir, _ := os.MkdirTemp("", "verifreplay")
	defer os.RemoveAll(dir)
	rf := filepath.Join(dir, "ce.json")
	b, _ := json.MarshalIndent(map[string]interface{}{"Harness": harness, "ID": v.ID, "Stream": v.Stream}, "", " ")
	os.WriteFile(rf, b, 0644)
	repl := map[string]string{}
	files, _ := filepath.Glob(filepath.Join(hdir, pkg, "*.go"))
	var names []string
	for _, f := range files {
		if filepath.Base(f) == "rt.go" {
			continue // replaced by the native runtime
		}
		src, _ := os.ReadFile(f)
		for _, line := range strings.Split(string(src), "\n") {
			if strings.HasPrefix(line, "func VerifHarness_") {
				names = append(names, strings.TrimSuffix(strings.TrimPrefix(strings.Fields(line)[1], ""), "()"))
			}
		}
		af, _ := filepath.Abs(f)
		repl[filepath.Join(repo, pkg, "zz_verif_"+filepath.Base(f))] = af
	}
	rt, _ := os.ReadFile("rt_native.go.txt")
	rtp := filepath.Join(dir, "rt.go")
	os.WriteFile(rtp, []byte(strings.Replace(string(rt), "package PKG", "package "+pkg, 1)), 0644)
	repl[filepath.Join(repo, pkg, "zz_verif_rt.go")] = rtp
	tt, _ := os.ReadFile("replay_test.go.txt")
	var reg strings.Builder
	reg.WriteString(strings.Replace(string(tt), "package PKG", "package "+pkg, 1))
	reg.WriteString("\nvar verifHarnesses = map[string]func(){\n")
	for _, nm := range names {
		fmt.Fprintf(&reg, "\t%q: %s,\n", nm, nm)
	}
	reg.WriteString("}\n")
	tp := filepath.Join(dir, "replay_test.go")
	os.WriteFile(tp, []byte(reg.String()), 0644)
	repl[filepath.Join(repo, pkg, "zz_verif_replay_test.go")] = tp
	ob, _ := json.Marshal(map[string]interface{}{"Replace": repl})
	op := filepath.Join(dir, "overlay.json")
	os.WriteFile(op, ob, 0644)
	cmd := osexec.Command("go", "test", "-tags", "verif", "-vet=off", "-count=1", "-overlay", op, "-run", "TestVerifReplay", "./"+pkg)
	cmd.Dir = repo
	cmd.Env = append(os.Environ(), "GOFLAGS=-mod=mod", "GOPROXY=off", "VERIF_REPLAY="+rf, "VERIF_HARNESS="+harness)
	out, _ := cmd.CombinedOutput()
	for _, line := range strings.Split(string(out), "\n") {
		if strings.TrimSpace(line) != "" {
			fmt.Println("    native:", line)
		}
	}
}
