package exec

import (
	"fmt"
	"os"
	"time"
	"sort"
	"sync"
	"go/constant"
	"go/token"
	"go/types"
	"strings"

	"golang.org/x/tools/go/ssa"

	"gosmt/sym"
)

var debugSlow = os.Getenv("VERIF_DEBUG") != ""

type StreamRec struct {
	Tag   string
	Val   uint64
	Bytes []byte
}

type event struct {
	tag  string
	term *sym.Term   // scalar (nil for bytes)
	lit  []*sym.Term // bytes with concrete length
	conc int64
	kind int // 0 scalar term, 1 bytes, 2 concrete split, 3 symbolic-length buffer
	f    string
}

type Violation struct {
	Harness string
	Tags   map[string]int64
	Stream []StreamRec
	ID     string
	Kind   string // "assert" | "panic"
	Msg    string
	Model  map[string]uint64
	Path   []int
	Where  string
	Bytes  map[string][]byte
}

type Stats struct {
	Paths, Instrs, Branches, Forks, Infeasible, UnwindHits, DepthHits int
}

type pathEnd struct{ reason string }
type goPanicSig struct {
	msg   string
	val   Value
	where string
}

type nondetRec struct {
	tag  string
	term *sym.Term
}
type bufRec struct {
	tag string
	f   string
	n   *sym.Term
	lit []*sym.Term
}

// Shared is the per-harness state shared by all workers exploring that harness.
type Shared struct {
	Mu         sync.Mutex
	Violations []Violation
	Reached    map[string]int
	SeenViol   map[string]bool
	Funcs      map[string]bool
	Asserts    map[string]int // assertion id -> times discharged (unsat or folded true)
	Inconcl    map[string]int // assertion id / site -> inconclusive solver answers
	Samples    []Sample
	Stats      Stats
	Bounds     map[string][2]int64 // split tag -> min,max value explored
	ForeignGlobals map[string]bool // globals of non-initialised foreign packages that were read (as zero values)
}

type Sample struct {
	Reach  string
	Stream []StreamRec
}

func NewShared() *Shared {
	return &Shared{Reached: map[string]int{}, SeenViol: map[string]bool{}, Funcs: map[string]bool{}, Asserts: map[string]int{}, Inconcl: map[string]int{}, Bounds: map[string][2]int64{}, ForeignGlobals: map[string]bool{}}
}

type Machine struct {
	Sh   *Shared
	Name string
	Prop string
	Tier int
	tags map[string]int64
	funcs map[string]bool
	Concrete []StreamRec // concrete mode: nondets are read from this stream
	cpos     int
	Log      []string // concrete-mode event log (asserts, reach, panic)
	C    *sym.Ctx
	S    *sym.Solver
	Prog *ssa.Program

	pc     []*sym.Term
	prefix []int
	dpos   int
	taken  []int
	work   [][]int

	fresh   int
	nextObj int
	globals map[*ssa.Global]*Object
	inited  map[*ssa.Package]bool
	nondets []nondetRec
	bufs    []bufRec
	events  []event

	depth      int
	MaxDepth   int
	Unwind     int
	curPanic   *frame
	Stats      Stats
	Violations []Violation
	Reached    map[string]int
	seenViol   map[string]bool
	Trace      bool
	OwnPkgs    map[*ssa.Package]bool
	stack      []string
	merging    bool
	ufs        map[string][]ufEntry
	Harness    *ssa.Package
	SplitBounds bool
	heldK map[string]bool
	opaqueGlobals map[*Object]string
	ErrWhere string
	SpinID   string // when set, an unwinding failure is reported as a violation with this id (non-progress)
}

type ufEntry struct {
	in  [][]*sym.Term
	out []*sym.Term
}

type frame struct {
	fn        *ssa.Function
	locals    map[ssa.Value]Value
	defers    []func()
	panicking *goPanicSig
	loops     map[*ssa.BasicBlock]int
}

func NewMachine(c *sym.Ctx, s *sym.Solver, prog *ssa.Program) *Machine {
	return &Machine{C: c, S: s, Prog: prog, MaxDepth: 200, Unwind: 300, Reached: map[string]int{}, seenViol: map[string]bool{}, OwnPkgs: map[*ssa.Package]bool{}, Sh: NewShared(), funcs: map[string]bool{}}
}

// RunPath executes fn once along the path selected by the decision prefix and returns the
// alternative prefixes discovered (fork by re-execution).
func (m *Machine) RunPath(fn *ssa.Function, prefix []int) (alts [][]int) {
	m.work = nil
	m.runPath(fn, prefix)
	alts = m.work
	m.work = nil
	m.Sh.Mu.Lock()
	m.Sh.Stats.Paths++
	m.Sh.Stats.Instrs += m.Stats.Instrs
	m.Sh.Stats.Branches += m.Stats.Branches
	m.Sh.Stats.Forks += m.Stats.Forks
	m.Sh.Stats.Infeasible += m.Stats.Infeasible
	m.Sh.Stats.UnwindHits += m.Stats.UnwindHits
	m.Sh.Stats.DepthHits += m.Stats.DepthHits
	for f := range m.funcs {
		m.Sh.Funcs[f] = true
	}
	m.Sh.Mu.Unlock()
	m.Stats = Stats{}
	m.funcs = map[string]bool{}
	return alts
}

func (m *Machine) runPath(fn *ssa.Function, prefix []int) {
	m.pc = nil
	m.prefix = prefix
	m.dpos = 0
	m.taken = nil
	m.fresh = 0
	m.nextObj = 0
	m.globals = map[*ssa.Global]*Object{}
	m.opaqueGlobals = map[*Object]string{}
	m.inited = map[*ssa.Package]bool{}
	m.nondets = nil
	m.bufs = nil
	m.events = nil
	m.ufs = map[string][]ufEntry{}
	m.depth = 0
	m.curPanic = nil
	m.stack = nil
	m.tags = map[string]int64{}
	m.cpos = 0
	m.Log = nil
	m.heldK = map[string]bool{}
	m.Stats.Paths++
	defer func() {
		if r := recover(); r != nil {
			switch x := r.(type) {
			case *pathEnd:
				switch x.reason {
				case "unwind":
					if m.SpinID != "" && m.Concrete == nil {
						// the harness's inputs are finite: a loop that is still running at the bound makes no progress
						m.reportSpin()
						break
					}
					m.Stats.UnwindHits++
				case "depth":
					m.Stats.DepthHits++
				}
				if m.Concrete != nil {
					m.Log = append(m.Log, "end:"+x.reason)
				}
				if m.Trace {
					fmt.Println("  path end:", x.reason, len(m.taken), "queries", m.S.Queries, "solver", m.S.Time)
				}
			case *goPanicSig:
				m.reportPanic(x)
			default:
				panic(r)
			}
		}
	}()
	m.call(fn, nil, nil)
}

func tagString(t map[string]int64) string {
	var ks []string
	for k := range t {
		ks = append(ks, k)
	}
	sort.Strings(ks)
	var sb strings.Builder
	for _, k := range ks {
		fmt.Fprintf(&sb, "%s=%d;", k, t[k])
	}
	return sb.String()
}

func (m *Machine) copyTags() map[string]int64 {
	r := map[string]int64{}
	for k, v := range m.tags {
		r[k] = v
	}
	return r
}

// firstSeen registers a violation key in the shared table and reports whether it is new.
func (m *Machine) firstSeen(key string) bool {
	m.Sh.Mu.Lock()
	defer m.Sh.Mu.Unlock()
	if m.Sh.SeenViol[key] {
		return false
	}
	m.Sh.SeenViol[key] = true
	return true
}

func (m *Machine) reportPanic(x *goPanicSig) {
	if m.Concrete != nil {
		m.Log = append(m.Log, "panic")
		return
	}
	id := "panic:" + x.where + ":" + x.msg
	key := id + "|" + tagString(m.tags)
	if !m.firstSeen(key) {
		return
	}
	st := m.streamNow(nil)
	if st == nil {
		m.noteInconclusive(id)
		return
	}
	m.Sh.Mu.Lock()
	m.Sh.Violations = append(m.Sh.Violations, Violation{Harness: m.Name, ID: id, Kind: "panic", Msg: x.msg, Where: x.where, Tags: m.copyTags(), Path: append([]int(nil), m.taken...), Stream: st})
	m.Sh.Mu.Unlock()
}

func (m *Machine) reportSpin() {
	id := m.SpinID
	key := "spin:" + id + "|" + tagString(m.tags)
	if !m.firstSeen(key) {
		return
	}
	st := m.streamNow(nil)
	if st == nil {
		m.noteInconclusive(id)
		return
	}
	m.Sh.Mu.Lock()
	m.Sh.Violations = append(m.Sh.Violations, Violation{Harness: m.Name, ID: id, Kind: "spin", Msg: "loop still running at the unwinding bound (no progress on finite input)", Where: m.Where(), Tags: m.copyTags(), Path: append([]int(nil), m.taken...), Stream: st})
	m.Sh.Mu.Unlock()
}

func (m *Machine) noteInconclusive(id string) {
	m.Sh.Mu.Lock()
	m.Sh.Inconcl[id]++
	m.Sh.Mu.Unlock()
}

// modelNow solves pc ∧ extra and returns values of all nondets and buffers.
func (m *Machine) modelNow(extra *sym.Term) (sym.Result, map[string]uint64, map[string][]byte) {
	as := append([]*sym.Term(nil), m.pc...)
	if extra != nil {
		as = append(as, extra)
	}
	if r0, _ := m.S.CheckPC(m.pc, extra, nil); r0 != sym.Sat {
		return r0, nil, nil
	}
	var want []*sym.Term
	for _, n := range m.nondets {
		want = append(want, n.term)
	}
	for _, b := range m.bufs {
		if b.n != nil {
			want = append(want, b.n)
		}
	}
	res, mv := m.S.Check(as, want)
	if res != sym.Sat {
		return res, nil, nil
	}
	model := map[string]uint64{}
	for _, n := range m.nondets {
		model[n.tag] = mv[n.term]
	}
	bufs := map[string][]byte{}
	// second query for buffer contents with lengths pinned
	var want2 []*sym.Term
	type ref struct {
		tag string
		i   int
	}
	var refs []ref
	as2 := append([]*sym.Term(nil), as...)
	for _, b := range m.bufs {
		if b.lit != nil {
			for i, t := range b.lit {
				want2 = append(want2, t)
				refs = append(refs, ref{b.tag, i})
			}
			continue
		}
		n := mv[b.n]
		as2 = append(as2, m.C.Eq(b.n, m.C.Const(64, n)))
		if n > 256 {
			n = 256
		}
		for i := 0; i < int(n); i++ {
			want2 = append(want2, m.C.UF(b.f, 8, m.C.Const(64, uint64(i))))
			refs = append(refs, ref{b.tag, i})
		}
		bufs[b.tag] = make([]byte, n)
	}
	if len(want2) > 0 {
		res2, mv2 := m.S.Check(as2, want2)
		if res2 == sym.Sat {
			for k, r := range refs {
				for len(bufs[r.tag]) <= r.i {
					bufs[r.tag] = append(bufs[r.tag], 0)
				}
				bufs[r.tag][r.i] = byte(mv2[want2[k]])
			}
		}
	}
	return res, model, bufs
}

func (m *Machine) sat(extra *sym.Term) bool {
	if extra.IsFalse() {
		return false
	}
	t0 := time.Now()
	r, _ := m.S.CheckPC(m.pc, extra, nil)
	if debugSlow && time.Since(t0) > 2*time.Second {
		fmt.Printf("  [slow query %.1fs -> %v] pc=%d at %v\n", time.Since(t0).Seconds(), r, len(m.pc), m.stack)
	}
	if r == sym.Unknown {
		m.noteInconclusive("branch-feasibility")
		return true
	}
	return r == sym.Sat
}

// branch decides a symbolic condition, forking when both outcomes are feasible.
func (m *Machine) branch(cond *sym.Term) bool {
	if cond.IsConst() {
		return cond.Val == 1
	}
	m.Stats.Branches++
	var d int
	if m.dpos < len(m.prefix) {
		d = m.prefix[m.dpos]
	} else {
		ft := m.sat(cond)
		ff := m.sat(m.C.Not(cond))
		switch {
		case ft && ff:
			alt := append(append([]int(nil), m.taken...), 0)
			m.work = append(m.work, alt)
			m.Stats.Forks++
			d = 1
		case ft:
			d = 1
		case ff:
			d = 0
		default:
			m.Stats.Infeasible++
			panic(&pathEnd{"infeasible"})
		}
	}
	m.dpos++
	m.taken = append(m.taken, d)
	if d == 1 {
		m.pc = append(m.pc, cond)
		return true
	}
	m.pc = append(m.pc, m.C.Not(cond))
	return false
}

func (m *Machine) goPanic(msg string) {
	where := ""
	if len(m.stack) > 0 {
		where = m.stack[len(m.stack)-1]
	}
	panic(&goPanicSig{msg: msg, where: where})
}

func (m *Machine) freshName(tag string) string {
	m.fresh++
	return fmt.Sprintf("%s_%d", sanitize(tag), m.fresh)
}

func sanitize(s string) string {
	var sb strings.Builder
	for _, r := range s {
		if (r >= 'a' && r <= 'z') || (r >= 'A' && r <= 'Z') || (r >= '0' && r <= '9') || r == '_' {
			sb.WriteRune(r)
		} else {
			sb.WriteByte('_')
		}
	}
	return sb.String()
}

// ---- calls

func (m *Machine) call(fn *ssa.Function, args []Value, bind []Value) Value {
	if h, ok := m.intercept(fn); ok {
		return h(args)
	}
	if fn.Blocks == nil {
		panic(unsupported("call to function without body: " + fn.String()))
	}
	m.depth++
	if m.depth > m.MaxDepth {
		panic(&pathEnd{"depth"})
	}
	m.stack = append(m.stack, fn.String())
	if fn.Pkg != nil && m.OwnPkgs[fn.Pkg] && !strings.HasPrefix(fn.Name(), "verif") && !strings.HasPrefix(fn.Name(), "Verif") {
		m.funcs[fn.String()] = true
	}
	defer func() {
		if r := recover(); r != nil {
			if _, isGo := r.(*goPanicSig); !isGo {
				if _, isEnd := r.(*pathEnd); !isEnd && m.ErrWhere == "" {
					m.ErrWhere = strings.Join(m.stack, " > ")
				}
			}
			m.depth--
			m.stack = m.stack[:len(m.stack)-1]
			panic(r)
		}
		m.depth--
		m.stack = m.stack[:len(m.stack)-1]
	}()
	fr := &frame{fn: fn, locals: map[ssa.Value]Value{}, loops: map[*ssa.BasicBlock]int{}}
	for i, p := range fn.Params {
		fr.locals[p] = args[i]
	}
	for i, fv := range fn.FreeVars {
		fr.locals[fv] = bind[i]
	}
	return m.runFrame(fr)
}

func (m *Machine) runFrame(fr *frame) (ret Value) {
	defer func() {
		if r := recover(); r != nil {
			gp, ok := r.(*goPanicSig)
			if !ok {
				panic(r)
			}
			fr.panicking = gp
			m.runDefers(fr)
			if fr.panicking != nil {
				panic(gp)
			}
			if fr.fn.Recover != nil {
				ret = m.execFrom(fr, fr.fn.Recover, nil)
			} else {
				ret = m.zeroValue(fr.fn.Signature.Results())
				if t, ok := ret.(Tuple); ok && len(t.V) == 1 {
					ret = t.V[0]
				}
			}
		}
	}()
	return m.execFrom(fr, fr.fn.Blocks[0], nil)
}

func (m *Machine) runDefers(fr *frame) {
	for len(fr.defers) > 0 {
		d := fr.defers[len(fr.defers)-1]
		fr.defers = fr.defers[:len(fr.defers)-1]
		saved := m.curPanic
		m.curPanic = fr
		d()
		m.curPanic = saved
	}
}

func (m *Machine) callValue(fv Value, args []Value) Value {
	f, ok := fv.(Func)
	if !ok {
		panic(fmt.Sprintf("callValue: not a func: %T", fv))
	}
	if f.Builtin != "" {
		return m.builtin(f.Builtin, args, nil)
	}
	if f.Fn == nil {
		m.goPanic("invalid memory address or nil pointer dereference (nil func)")
	}
	return m.call(f.Fn, args, f.Bind)
}

func (m *Machine) doCall(fr *frame, cc *ssa.CallCommon) Value {
	args := make([]Value, 0, len(cc.Args)+1)
	if cc.IsInvoke() {
		recv := m.get(fr, cc.Value).(Iface)
		if recv.T == nil {
			m.goPanic("invalid memory address or nil pointer dereference (nil interface method call)")
		}
		ms := m.Prog.MethodSets.MethodSet(recv.T)
		sel := ms.Lookup(cc.Method.Pkg(), cc.Method.Name())
		if sel == nil {
			panic(unsupported("method " + cc.Method.Name() + " not found on " + recv.T.String()))
		}
		fn := m.Prog.MethodValue(sel)
		args = append(args, recv.V)
		for _, a := range cc.Args {
			args = append(args, m.get(fr, a))
		}
		return m.call(fn, args, nil)
	}
	for _, a := range cc.Args {
		args = append(args, m.get(fr, a))
	}
	switch f := cc.Value.(type) {
	case *ssa.Builtin:
		return m.builtin(f.Name(), args, cc)
	case *ssa.Function:
		return m.call(f, args, nil)
	}
	return m.callValue(m.get(fr, cc.Value), args)
}

// ---- value access

func (m *Machine) get(fr *frame, v ssa.Value) Value {
	switch x := v.(type) {
	case *ssa.Const:
		return m.constValue(x)
	case *ssa.Global:
		return Ptr{Obj: m.globalObj(x)}
	case *ssa.Function:
		return Func{Fn: x}
	case *ssa.Builtin:
		return Func{Builtin: x.Name()}
	}
	val, ok := fr.locals[v]
	if !ok {
		panic(fmt.Sprintf("get: no value for %s (%T) in %s", v.Name(), v, fr.fn))
	}
	return val
}

// runInit lists the non-repository packages whose initialiser is executed symbolically (small, pure Go).
// Every other foreign package is NOT initialised: its error-typed globals (io.EOF-like sentinels such as
// net.ErrClosed) become distinct opaque error objects, and any other of its globals reads as its zero value (recorded in the evidence; the native validation runs cross-check).
var runInit = map[string]bool{
	"io": true, "errors": true, "bytes": true, "container/list": true, "encoding/hex": true,
	"golang.org/x/crypto/cryptobyte": true, "golang.org/x/crypto/cryptobyte/asn1": true, "crypto/subtle": true,
	"strings": true, "unicode/utf8": true, "sort": true, "encoding/binary": true, "math/bits": true, "strconv": true,
	"crypto": true, "context": true, "sync": true, "sync/atomic": true, "hash": true, "bufio": true,
}

func (m *Machine) globalObj(g *ssa.Global) *Object {
	if o, ok := m.globals[g]; ok {
		return o
	}
	// allocate all globals of the package lazily; run its initialiser once
	pkg := g.Pkg
	if !m.inited[pkg] {
		m.inited[pkg] = true
		own := m.OwnPkgs[pkg] || pkg == m.Harness || runInit[pkg.Pkg.Path()]
		for _, mem := range pkg.Members {
			if gg, ok := mem.(*ssa.Global); ok {
				et := gg.Type().(*types.Pointer).Elem()
				m.globals[gg] = m.newObj(et, m.zeroCell(et))
				if !own {
					if types.Identical(et, types.Universe.Lookup("error").Type()) {
						ep := m.Prog.ImportedPackage("errors")
						est := ep.Type("errorString").Type()
						obj := m.newObj(est, m.zeroCell(est))
						m.store(extend(Ptr{Obj: obj}, PathElem{Kind: 0, I: 0}), Str{m.litRope([]byte(pkg.Pkg.Path() + "." + gg.Name()))})
						m.store(Ptr{Obj: m.globals[gg]}, Iface{T: types.NewPointer(est), V: Ptr{Obj: obj}})
					} else {
						m.opaqueGlobals[m.globals[gg]] = pkg.Pkg.Path() + "." + gg.Name()
					}
				}
			}
		}
		if own {
			if init := pkg.Func("init"); init != nil && init.Blocks != nil {
				m.call(init, nil, nil)
			}
		}
	}
	o, ok := m.globals[g]
	if !ok {
		et := g.Type().(*types.Pointer).Elem()
		o = m.newObj(et, m.zeroCell(et))
		m.globals[g] = o
	}
	if name, opaque := m.opaqueGlobals[o]; opaque {
		// the zero value stands for the uninitialised global: recorded, and cross-checked by the native validation runs
		m.Sh.Mu.Lock()
		m.Sh.ForeignGlobals[name] = true
		m.Sh.Mu.Unlock()
	}
	return o
}

func (m *Machine) constValue(c *ssa.Const) Value {
	t := c.Type()
	if c.Value == nil {
		return m.zeroValue(t)
	}
	if b, ok := t.Underlying().(*types.Basic); ok {
		switch {
		case b.Info()&types.IsBoolean != 0:
			return Bool{m.C.Bool(constant.BoolVal(c.Value))}
		case b.Info()&types.IsString != 0:
			return Str{m.litRope([]byte(constant.StringVal(c.Value)))}
		case b.Info()&types.IsInteger != 0:
			w := widthOf(t)
			if i, ok := constant.Int64Val(constant.ToInt(c.Value)); ok {
				return Int{m.C.Const(w, uint64(i))}
			}
			u, _ := constant.Uint64Val(constant.ToInt(c.Value))
			return Int{m.C.Const(w, u)}
		}
	}
	panic(unsupported("const of type " + t.String()))
}

// ---- block execution

func (m *Machine) execFrom(fr *frame, block *ssa.BasicBlock, prev *ssa.BasicBlock) Value {
	for {
		var next *ssa.BasicBlock
		// phis first (simultaneous)
		nphi := 0
		var phiVals []Value
		for _, ins := range block.Instrs {
			phi, ok := ins.(*ssa.Phi)
			if !ok {
				break
			}
			nphi++
			idx := -1
			for i, p := range block.Preds {
				if p == prev {
					idx = i
					break
				}
			}
			phiVals = append(phiVals, m.get(fr, phi.Edges[idx]))
		}
		for i := 0; i < nphi; i++ {
			fr.locals[block.Instrs[i].(*ssa.Phi)] = phiVals[i]
		}
		for _, ins := range block.Instrs[nphi:] {
			m.Stats.Instrs++
			switch x := ins.(type) {
			case *ssa.If:
				c := m.get(fr, x.Cond).(Bool).T
				if m.branch(c) {
					next = block.Succs[0]
				} else {
					next = block.Succs[1]
				}
			case *ssa.Jump:
				next = block.Succs[0]
			case *ssa.Return:
				switch len(x.Results) {
				case 0:
					return nil
				case 1:
					return m.get(fr, x.Results[0])
				}
				t := Tuple{}
				for _, r := range x.Results {
					t.V = append(t.V, m.get(fr, r))
				}
				return t
			case *ssa.Panic:
				v := m.get(fr, x.X)
				msg := "panic"
				if iv, ok := v.(Iface); ok {
					if s, ok := iv.V.(Str); ok {
						msg = "panic: " + m.concreteString(s)
					} else if iv.T != nil {
						msg = "panic: value of type " + iv.T.String()
					}
				}
				where := fr.fn.String()
				panic(&goPanicSig{msg: msg, val: v, where: where})
			default:
				m.exec(fr, ins)
			}
		}
		if next == nil {
			panic("block without terminator")
		}
		if next.Index <= block.Index {
			fr.loops[next]++
			if fr.loops[next] > m.Unwind {
				panic(&pathEnd{"unwind"})
			}
		} else if fr.loops[next] > 0 {
			// a loop header entered again from outside (inner loop of a nest): its bound applies per entry
			fr.loops[next] = 0
		}
		prev, block = block, next
	}
}

func (m *Machine) concreteString(s Str) string {
	n := m.ropeLen(s.R)
	if !n.IsConst() {
		return "<symbolic string>"
	}
	b := make([]byte, n.Val)
	for i := range b {
		t := m.ropeAt(s.R, m.i64(i))
		if !t.IsConst() {
			return "<symbolic string>"
		}
		b[i] = byte(t.Val)
	}
	return string(b)
}

var _ = token.ADD

// callMerged explores all paths of a side-effect-free function and merges the results into ite terms.
func (m *Machine) callMerged(fn *ssa.Function, args []Value) Value {
	base := len(m.pc)
	sp, sd, st, sw := m.prefix, m.dpos, m.taken, m.work
	m.merging = true
	type out struct {
		cond *sym.Term
		val  Value
	}
	var outs []out
	local := [][]int{nil}
	for len(local) > 0 {
		p := local[len(local)-1]
		local = local[:len(local)-1]
		m.pc = m.pc[:base]
		m.prefix, m.dpos, m.taken, m.work = p, 0, nil, nil
		var v Value
		ok := func() (ok bool) {
			defer func() {
				if r := recover(); r != nil {
					if pe, isPE := r.(*pathEnd); isPE && pe.reason == "infeasible" {
						ok = false
						return
					}
					panic(r)
				}
			}()
			v = m.call(fn, args, nil)
			return true
		}()
		local = append(local, m.work...)
		if !ok {
			continue
		}
		cond := m.C.Bool(true)
		for _, t := range m.pc[base:] {
			cond = m.C.And(cond, t)
		}
		outs = append(outs, out{cond, v})
	}
	m.merging = false
	m.pc = m.pc[:base]
	m.prefix, m.dpos, m.taken, m.work = sp, sd, st, sw
	if len(outs) == 0 {
		panic(&pathEnd{"infeasible"})
	}
	res := outs[len(outs)-1].val
	for i := len(outs) - 2; i >= 0; i-- {
		res = m.mergeVal(outs[i].cond, outs[i].val, res)
	}
	return res
}

func (m *Machine) mergeVal(c *sym.Term, a, b Value) Value {
	switch x := a.(type) {
	case Int:
		return Int{m.C.Ite(c, x.T, b.(Int).T)}
	case Bool:
		return Bool{m.C.Ite(c, x.T, b.(Bool).T)}
	case Tuple:
		t := Tuple{V: make([]Value, len(x.V))}
		for i := range x.V {
			t.V[i] = m.mergeVal(c, x.V[i], b.(Tuple).V[i])
		}
		return t
	}
	panic(unsupported(fmt.Sprintf("merge of %T", a)))
}

// streamNow evaluates the recorded nondet events in a model of pc ∧ extra (call order), for native replay.
func (m *Machine) streamNow(extra *sym.Term) []StreamRec {
	var want []*sym.Term
	hasSym := false
	for _, e := range m.events {
		switch e.kind {
		case 0:
			want = append(want, e.term)
		case 1:
			want = append(want, e.lit...)
		case 3:
			want = append(want, e.term)
			hasSym = true
		}
	}
	res, mv := m.S.CheckPC(m.pc, extra, want)
	if res != sym.Sat {
		return nil
	}
	if hasSym {
		// pin every scalar (including buffer lengths) to the first model, then read buffer contents
		pin := m.C.Bool(true)
		if extra != nil {
			pin = extra
		}
		var want2 []*sym.Term
		for _, e := range m.events {
			if e.kind == 0 || e.kind == 3 {
				pin = m.C.And(pin, m.C.Eq(e.term, m.C.Const(e.term.W, mv[e.term])))
			}
			if e.kind == 3 {
				for i := uint64(0); i < mv[e.term] && i < 4096; i++ {
					want2 = append(want2, m.C.UF(e.f, 8, m.C.Const(64, i)))
				}
			}
		}
		want2 = append(want2, want...)
		res2, mv2 := m.S.CheckPC(m.pc, pin, want2)
		if res2 != sym.Sat {
			return nil
		}
		mv = mv2
	}
	out := []StreamRec{} // non-nil even for a harness without any nondeterministic input (nil means: no model)
	for _, e := range m.events {
		switch e.kind {
		case 0:
			out = append(out, StreamRec{Tag: e.tag, Val: mv[e.term]})
		case 1:
			b := make([]byte, len(e.lit))
			for i, t := range e.lit {
				b[i] = byte(mv[t])
			}
			out = append(out, StreamRec{Tag: e.tag, Bytes: b})
		case 2:
			out = append(out, StreamRec{Tag: e.tag, Val: uint64(e.conc)})
		case 3:
			n := mv[e.term]
			b := make([]byte, n)
			for i := range b {
				b[i] = byte(mv[m.C.UF(e.f, 8, m.C.Const(64, uint64(i)))])
			}
			out = append(out, StreamRec{Tag: e.tag, Bytes: b})
		}
	}
	return out
}

// Where names the innermost function being executed (for engine error messages).
func (m *Machine) Where() string {
	if m.ErrWhere != "" {
		w := m.ErrWhere
		if len(w) > 300 {
			w = "…" + w[len(w)-300:]
		}
		return w
	}
	if len(m.stack) == 0 {
		return "?"
	}
	return m.stack[len(m.stack)-1]
}
