package exec

import (
	"fmt"

	"gosmt/sym"
)

// Rope is an immutable byte sequence whose length and indices may be symbolic (BV64 terms).
type Rope interface {
	Len() *sym.Term
}

type ropeLit struct{ b []*sym.Term }                 // concrete length, byte terms
type ropeZero struct{ n *sym.Term }                  // n zero bytes
type ropeSym struct{ f string; base, n *sym.Term }   // f(base+i), i < n
type ropeCat struct{ a, b Rope; n *sym.Term }
type ropeSub struct{ r Rope; off, n *sym.Term }
type ropeUpd struct{ r Rope; idx, val *sym.Term }

func (r *ropeLit) Len() *sym.Term  { panic("use M.ropeLen") }
func (r *ropeZero) Len() *sym.Term { return r.n }
func (r *ropeSym) Len() *sym.Term  { return r.n }
func (r *ropeCat) Len() *sym.Term  { return r.n }
func (r *ropeSub) Len() *sym.Term  { return r.n }
func (r *ropeUpd) Len() *sym.Term  { return r.r.Len() }

func (m *Machine) ropeLen(r Rope) *sym.Term {
	switch x := r.(type) {
	case *ropeLit:
		return m.C.Const(64, uint64(len(x.b)))
	case *ropeUpd:
		return m.ropeLen(x.r)
	}
	return r.Len()
}

func (m *Machine) i64(v int) *sym.Term { return m.C.Const(64, uint64(int64(v))) }

func (m *Machine) litRope(bs []byte) Rope {
	t := make([]*sym.Term, len(bs))
	for i, b := range bs {
		t[i] = m.C.Const(8, uint64(b))
	}
	return &ropeLit{t}
}

func (m *Machine) zeroRope(n *sym.Term) Rope {
	if n.IsConst() && n.Val <= 4096 {
		t := make([]*sym.Term, n.Val)
		z := m.C.Const(8, 0)
		for i := range t {
			t[i] = z
		}
		return &ropeLit{t}
	}
	return &ropeZero{n}
}

// ropeAt returns the byte at index i (no bounds check here).
func (m *Machine) ropeAt(r Rope, i *sym.Term) *sym.Term {
	c := m.C
	switch x := r.(type) {
	case *ropeLit:
		if i.IsConst() {
			if i.Val >= uint64(len(x.b)) {
				panic(fmt.Sprintf("ropeAt: concrete index %d out of literal rope of %d", i.Val, len(x.b)))
			}
			return x.b[i.Val]
		}
		if len(x.b) == 0 {
			return c.Const(8, 0)
		}
		res := x.b[len(x.b)-1]
		for k := len(x.b) - 2; k >= 0; k-- {
			res = c.Ite(c.Eq(i, c.Const(64, uint64(k))), x.b[k], res)
		}
		return res
	case *ropeZero:
		return c.Const(8, 0)
	case *ropeSym:
		return c.UF(x.f, 8, c.Bin("bvadd", x.base, i))
	case *ropeCat:
		la := m.ropeLen(x.a)
		inA := c.Cmp("bvult", i, la)
		if inA.IsTrue() {
			return m.ropeAt(x.a, i)
		}
		if inA.IsFalse() {
			return m.ropeAt(x.b, c.Bin("bvsub", i, la))
		}
		return c.Ite(inA, m.ropeAt(x.a, i), m.ropeAt(x.b, c.Bin("bvsub", i, la)))
	case *ropeSub:
		return m.ropeAt(x.r, c.Bin("bvadd", x.off, i))
	case *ropeUpd:
		eq := c.Eq(i, x.idx)
		if eq.IsTrue() {
			return x.val
		}
		if eq.IsFalse() {
			return m.ropeAt(x.r, i)
		}
		return c.Ite(eq, x.val, m.ropeAt(x.r, i))
	}
	panic("ropeAt: unknown rope")
}

func (m *Machine) ropeSubOf(r Rope, off, n *sym.Term) Rope {
	if n.IsConst() && n.Val == 0 {
		return &ropeLit{nil}
	}
	if off.IsConst() && off.Val == 0 && m.ropeLen(r) == n {
		return r
	}
	switch x := r.(type) {
	case *ropeLit:
		if off.IsConst() && n.IsConst() {
			return &ropeLit{x.b[off.Val : off.Val+n.Val]}
		}
	case *ropeSub:
		return m.ropeSubOf(x.r, m.C.Bin("bvadd", x.off, off), n)
	case *ropeSym:
		return &ropeSym{x.f, m.C.Bin("bvadd", x.base, off), n}
	case *ropeZero:
		return m.zeroRope(n)
	case *ropeCat:
		la := m.ropeLen(x.a)
		// entirely within a or b when decidable syntactically
		end := m.C.Bin("bvadd", off, n)
		if m.C.Cmp("bvule", end, la).IsTrue() {
			return m.ropeSubOf(x.a, off, n)
		}
		if m.C.Cmp("bvule", la, off).IsTrue() {
			return m.ropeSubOf(x.b, m.C.Bin("bvsub", off, la), n)
		}
		if off.IsConst() && n.IsConst() && la.IsConst() {
			na := la.Val - off.Val
			return m.ropeCatOf(m.ropeSubOf(x.a, off, m.C.Const(64, na)), m.ropeSubOf(x.b, m.C.Const(64, 0), m.C.Const(64, n.Val-na)))
		}
	case *ropeUpd:
		if x.idx.IsConst() && off.IsConst() && n.IsConst() {
			if x.idx.Val < off.Val || x.idx.Val >= off.Val+n.Val {
				return m.ropeSubOf(x.r, off, n)
			}
		}
	}
	// materialise small concrete windows
	if off.IsConst() && n.IsConst() && n.Val <= 4096 {
		t := make([]*sym.Term, n.Val)
		for i := range t {
			t[i] = m.ropeAt(r, m.C.Const(64, off.Val+uint64(i)))
		}
		return &ropeLit{t}
	}
	return &ropeSub{r, off, n}
}

func (m *Machine) ropeCatOf(a, b Rope) Rope {
	la, lb := m.ropeLen(a), m.ropeLen(b)
	if la.IsConst() && la.Val == 0 {
		return b
	}
	if lb.IsConst() && lb.Val == 0 {
		return a
	}
	if x, ok := a.(*ropeLit); ok {
		if y, ok := b.(*ropeLit); ok {
			t := make([]*sym.Term, 0, len(x.b)+len(y.b))
			t = append(append(t, x.b...), y.b...)
			return &ropeLit{t}
		}
	}
	// fuse adjacent windows of the same symbolic buffer
	if x, ok := a.(*ropeSym); ok {
		if y, ok := b.(*ropeSym); ok && x.f == y.f && m.C.Bin("bvadd", x.base, x.n) == y.base {
			return &ropeSym{x.f, x.base, m.C.Bin("bvadd", x.n, y.n)}
		}
	}
	return &ropeCat{a, b, m.C.Bin("bvadd", la, lb)}
}

func (m *Machine) ropeUpdOf(r Rope, idx, val *sym.Term) Rope {
	if x, ok := r.(*ropeLit); ok && idx.IsConst() {
		t := make([]*sym.Term, len(x.b))
		copy(t, x.b)
		t[idx.Val] = val
		return &ropeLit{t}
	}
	return &ropeUpd{r, idx, val}
}

// ropeSplice returns r with [off, off+n) replaced by src (of length n).
func (m *Machine) ropeSplice(r Rope, off, n *sym.Term, src Rope) Rope {
	total := m.ropeLen(r)
	head := m.ropeSubOf(r, m.i64(0), off)
	tailOff := m.C.Bin("bvadd", off, n)
	tail := m.ropeSubOf(r, tailOff, m.C.Bin("bvsub", total, tailOff))
	return m.ropeCatOf(m.ropeCatOf(head, src), tail)
}

// ropeEq builds the term "a and b have equal length and equal contents"; both lengths must be concrete
// after the length equality is decided by the caller, or one side concrete.
func (m *Machine) ropeEqN(a, b Rope, n int) *sym.Term {
	res := m.C.Bool(true)
	for i := 0; i < n; i++ {
		ix := m.i64(i)
		res = m.C.And(res, m.C.Eq(m.ropeAt(a, ix), m.ropeAt(b, ix)))
	}
	return res
}
