package exec

import (
	"fmt"
	"go/types"

	"golang.org/x/tools/go/ssa"

	"gosmt/sym"
)

type Value interface{}

type Int struct{ T *sym.Term }  // bit-vector
type Bool struct{ T *sym.Term } // W==0
type Ptr struct {
	Obj  *Object // nil => nil pointer
	Path []PathElem
}
type Slice struct {
	Base          Ptr // pointer to the backing array cell (bytesCell or arrCell); Obj==nil => nil slice
	Off, Len, Cap *sym.Term
}
type Str struct{ R Rope }
type Iface struct {
	T types.Type // nil => nil interface
	V Value
}
type Struct struct{ F []Value }
type Array struct{ E []Value }
type ByteArr struct{ R Rope }
type Func struct {
	Fn      *ssa.Function
	Bind    []Value
	Builtin string
}
type Tuple struct{ V []Value }
type MapV struct{ M *MapObj }
type MapObj struct {
	Keys []Value
	Vals []Value
}

type PathElem struct {
	Kind int // 0 field, 1 index, 2 byte index
	I    int
	T    *sym.Term
}

type Object struct {
	ID   int
	Cell Cell
	Typ  types.Type
}

type Cell interface{}
type valCell struct{ v Value }
type structCell struct{ f []Cell }
type arrCell struct{ e []Cell }
type bytesCell struct{ r Rope }

func isByte(t types.Type) bool {
	b, ok := t.Underlying().(*types.Basic)
	return ok && (b.Kind() == types.Uint8 || b.Kind() == types.Byte)
}

func widthOf(t types.Type) int {
	switch b := t.Underlying().(type) {
	case *types.Basic:
		switch b.Kind() {
		case types.Bool, types.UntypedBool:
			return 0
		case types.Int8, types.Uint8:
			return 8
		case types.Int16, types.Uint16:
			return 16
		case types.Int32, types.Uint32, types.UntypedRune:
			return 32
		case types.Int64, types.Uint64, types.Int, types.Uint, types.Uintptr, types.UntypedInt:
			return 64
		}
	}
	return -1
}

func isSigned(t types.Type) bool {
	if b, ok := t.Underlying().(*types.Basic); ok {
		return b.Info()&types.IsInteger != 0 && b.Info()&types.IsUnsigned == 0
	}
	return false
}

func (m *Machine) newObj(t types.Type, c Cell) *Object {
	m.nextObj++
	return &Object{ID: m.nextObj, Cell: c, Typ: t}
}

func (m *Machine) zeroCell(t types.Type) Cell {
	switch u := t.Underlying().(type) {
	case *types.Struct:
		c := &structCell{f: make([]Cell, u.NumFields())}
		for i := range c.f {
			c.f[i] = m.zeroCell(u.Field(i).Type())
		}
		return c
	case *types.Array:
		if isByte(u.Elem()) {
			return &bytesCell{m.zeroRope(m.i64(int(u.Len())))}
		}
		c := &arrCell{e: make([]Cell, u.Len())}
		for i := range c.e {
			c.e[i] = m.zeroCell(u.Elem())
		}
		return c
	}
	return &valCell{m.zeroValue(t)}
}

func (m *Machine) zeroValue(t types.Type) Value {
	switch u := t.Underlying().(type) {
	case *types.Basic:
		if u.Info()&types.IsString != 0 {
			return Str{&ropeLit{nil}}
		}
		w := widthOf(t)
		if w == 0 {
			return Bool{m.C.Bool(false)}
		}
		if w > 0 {
			return Int{m.C.Const(w, 0)}
		}
		if u.Kind() == types.UnsafePointer {
			return Ptr{}
		}
		panic(unsupported("zero value of basic " + t.String()))
	case *types.Pointer:
		return Ptr{}
	case *types.Slice:
		return Slice{Off: m.i64(0), Len: m.i64(0), Cap: m.i64(0)}
	case *types.Interface:
		return Iface{}
	case *types.Signature:
		return Func{}
	case *types.Map:
		return MapV{}
	case *types.Chan:
		return Ptr{}
	case *types.Struct:
		s := Struct{F: make([]Value, u.NumFields())}
		for i := range s.F {
			s.F[i] = m.zeroValue(u.Field(i).Type())
		}
		return s
	case *types.Array:
		if isByte(u.Elem()) {
			return ByteArr{m.zeroRope(m.i64(int(u.Len())))}
		}
		a := Array{E: make([]Value, u.Len())}
		for i := range a.E {
			a.E[i] = m.zeroValue(u.Elem())
		}
		return a
	case *types.Tuple:
		tv := Tuple{V: make([]Value, u.Len())}
		for i := range tv.V {
			tv.V[i] = m.zeroValue(u.At(i).Type())
		}
		return tv
	}
	panic(unsupported("zero value of " + t.String()))
}

func (m *Machine) cellToValue(c Cell) Value {
	switch x := c.(type) {
	case *valCell:
		return x.v
	case *structCell:
		s := Struct{F: make([]Value, len(x.f))}
		for i, f := range x.f {
			s.F[i] = m.cellToValue(f)
		}
		return s
	case *arrCell:
		a := Array{E: make([]Value, len(x.e))}
		for i, e := range x.e {
			a.E[i] = m.cellToValue(e)
		}
		return a
	case *bytesCell:
		return ByteArr{x.r}
	}
	panic("cellToValue")
}

func (m *Machine) storeCell(c Cell, v Value) {
	switch x := c.(type) {
	case *valCell:
		x.v = v
	case *structCell:
		s := v.(Struct)
		for i := range x.f {
			m.storeCell(x.f[i], s.F[i])
		}
	case *arrCell:
		a := v.(Array)
		for i := range x.e {
			m.storeCell(x.e[i], a.E[i])
		}
	case *bytesCell:
		x.r = v.(ByteArr).R
	default:
		panic("storeCell")
	}
}

func (m *Machine) valueToCell(t types.Type, v Value) Cell {
	c := m.zeroCell(t)
	m.storeCell(c, v)
	return c
}

type unsupported string

func (u unsupported) Error() string { return "unsupported: " + string(u) }

// resolve walks a pointer to its cell; the last element may be a byte index.
func (m *Machine) resolve(p Ptr) (Cell, *sym.Term) {
	if p.Obj == nil {
		m.goPanic("invalid memory address or nil pointer dereference")
	}
	c := p.Obj.Cell
	for k, pe := range p.Path {
		switch pe.Kind {
		case 0:
			sc, ok := c.(*structCell)
			if !ok {
				panic(fmt.Sprintf("resolve: field on %T", c))
			}
			c = sc.f[pe.I]
		case 1:
			ac, ok := c.(*arrCell)
			if !ok {
				panic(fmt.Sprintf("resolve: index on %T", c))
			}
			c = ac.e[pe.I]
		case 2:
			if k != len(p.Path)-1 {
				panic("resolve: byte index not last")
			}
			return c, pe.T
		}
	}
	return c, nil
}

func (m *Machine) load(p Ptr) Value {
	c, bi := m.resolve(p)
	if bi != nil {
		return Int{m.ropeAt(c.(*bytesCell).r, bi)}
	}
	return m.cellToValue(c)
}

func (m *Machine) store(p Ptr, v Value) {
	c, bi := m.resolve(p)
	if bi != nil {
		bc := c.(*bytesCell)
		bc.r = m.ropeUpdOf(bc.r, bi, v.(Int).T)
		return
	}
	m.storeCell(c, v)
}

func extend(p Ptr, pe PathElem) Ptr {
	np := make([]PathElem, len(p.Path)+1)
	copy(np, p.Path)
	np[len(p.Path)] = pe
	return Ptr{p.Obj, np}
}

func samePtr(a, b Ptr) bool {
	if a.Obj != b.Obj || len(a.Path) != len(b.Path) {
		return false
	}
	for i := range a.Path {
		if a.Path[i].Kind != b.Path[i].Kind || a.Path[i].I != b.Path[i].I || a.Path[i].T != b.Path[i].T {
			return false
		}
	}
	return true
}
