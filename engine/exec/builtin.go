package exec

import (
	"net"
	"fmt"
	"go/types"
	"strings"

	"golang.org/x/tools/go/ssa"

	"gosmt/sym"
)

func (m *Machine) nextConcrete(tag string) StreamRec {
	if m.cpos >= len(m.Concrete) {
		panic(fmt.Sprintf("concrete stream exhausted at %s", tag))
	}
	r := m.Concrete[m.cpos]
	m.cpos++
	if r.Tag != tag {
		panic(fmt.Sprintf("concrete stream tag mismatch: want %q have %q", tag, r.Tag))
	}
	return r
}

func (m *Machine) minTerm(a, b *sym.Term) *sym.Term {
	return m.C.Ite(m.C.Cmp("bvult", a, b), a, b)
}

func (m *Machine) bytesOf(v Value) (Rope, *sym.Term) {
	switch x := v.(type) {
	case Slice:
		return m.sliceRope(x), x.Len
	case Str:
		return x.R, m.ropeLen(x.R)
	}
	panic(fmt.Sprintf("bytesOf %T", v))
}

func (m *Machine) builtin(name string, args []Value, cc *ssa.CallCommon) Value {
	c := m.C
	switch name {
	case "len":
		switch x := args[0].(type) {
		case Slice:
			return Int{x.Len}
		case Str:
			return Int{m.ropeLen(x.R)}
		case MapV:
			if x.M == nil {
				return Int{m.i64(0)}
			}
			return Int{m.i64(len(x.M.Keys))}
		case Ptr:
			at := cc.Args[0].Type().Underlying().(*types.Pointer).Elem().Underlying().(*types.Array)
			return Int{m.i64(int(at.Len()))}
		case Array:
			return Int{m.i64(len(x.E))}
		case ByteArr:
			return Int{m.ropeLen(x.R)}
		}
	case "cap":
		switch x := args[0].(type) {
		case Slice:
			return Int{x.Cap}
		}
	case "append":
		s := args[0].(Slice)
		elemT := cc.Args[0].Type().Underlying().(*types.Slice).Elem()
		if isByte(elemT) {
			src, n := m.bytesOf(args[1])
			newLen := c.Bin("bvadd", s.Len, n)
			if s.Base.Obj != nil && m.branch(c.Cmp("bvule", newLen, s.Cap)) {
				cell, _ := m.resolve(s.Base)
				bc := cell.(*bytesCell)
				bc.r = m.ropeSplice(bc.r, c.Bin("bvadd", s.Off, s.Len), n, src)
				return Slice{Base: s.Base, Off: s.Off, Len: newLen, Cap: s.Cap}
			}
			var old Rope = &ropeLit{nil}
			if s.Base.Obj != nil {
				old = m.sliceRope(s)
			}
			// capacity: mimic doubling when concrete, otherwise exact
			newCap := newLen
			if newLen.IsConst() && s.Cap.IsConst() {
				cp := 2 * s.Cap.Val
				if cp < newLen.Val {
					cp = newLen.Val
				}
				if cp < 8 {
					cp = 8
				}
				newCap = c.Const(64, cp)
			}
			content := m.ropeCatOf(m.ropeCatOf(old, src), m.zeroRope(c.Bin("bvsub", newCap, newLen)))
			obj := m.newObj(nil, &bytesCell{content})
			return Slice{Base: Ptr{Obj: obj}, Off: m.i64(0), Len: newLen, Cap: newCap}
		}
		t := args[1].(Slice)
		sl, tl := m.concreteInt(s.Len, "append len"), m.concreteInt(t.Len, "append src len")
		so, to := m.concreteInt(s.Off, "append off"), m.concreteInt(t.Off, "append src off")
		scap := m.concreteInt(s.Cap, "append cap")
		var srcCells []Cell
		if tl > 0 {
			tc, _ := m.resolve(t.Base)
			srcCells = tc.(*arrCell).e[to : to+tl]
		}
		if s.Base.Obj != nil && sl+tl <= scap {
			dc, _ := m.resolve(s.Base)
			de := dc.(*arrCell).e
			for i := 0; i < tl; i++ {
				m.storeCell(de[so+sl+i], m.cellToValue(srcCells[i]))
			}
			return Slice{Base: s.Base, Off: s.Off, Len: m.i64(sl + tl), Cap: s.Cap}
		}
		ncap := 2 * scap
		if ncap < sl+tl {
			ncap = sl + tl
		}
		if ncap < 4 {
			ncap = 4
		}
		ac := &arrCell{e: make([]Cell, ncap)}
		var oldCells []Cell
		if s.Base.Obj != nil {
			oc, _ := m.resolve(s.Base)
			oldCells = oc.(*arrCell).e[so : so+sl]
		}
		for i := range ac.e {
			ac.e[i] = m.zeroCell(elemT)
			if i < sl {
				m.storeCell(ac.e[i], m.cellToValue(oldCells[i]))
			} else if i < sl+tl {
				m.storeCell(ac.e[i], m.cellToValue(srcCells[i-sl]))
			}
		}
		return Slice{Base: Ptr{Obj: m.newObj(nil, ac)}, Off: m.i64(0), Len: m.i64(sl + tl), Cap: m.i64(ncap)}
	case "copy":
		d := args[0].(Slice)
		elemT := cc.Args[0].Type().Underlying().(*types.Slice).Elem()
		if isByte(elemT) {
			src, sn := m.bytesOf(args[1])
			n := m.minTerm(d.Len, sn)
			if n.IsConst() && n.Val == 0 {
				return Int{n}
			}
			cell, _ := m.resolve(d.Base)
			bc := cell.(*bytesCell)
			bc.r = m.ropeSplice(bc.r, d.Off, n, m.ropeSubOf(src, m.i64(0), n))
			return Int{n}
		}
		s := args[1].(Slice)
		dl, sl := m.concreteInt(d.Len, "copy"), m.concreteInt(s.Len, "copy")
		n := dl
		if sl < n {
			n = sl
		}
		if n > 0 {
			dc, _ := m.resolve(d.Base)
			sc, _ := m.resolve(s.Base)
			do, so := m.concreteInt(d.Off, "copy"), m.concreteInt(s.Off, "copy")
			vals := make([]Value, n)
			for i := 0; i < n; i++ {
				vals[i] = m.cellToValue(sc.(*arrCell).e[so+i])
			}
			for i := 0; i < n; i++ {
				m.storeCell(dc.(*arrCell).e[do+i], vals[i])
			}
		}
		return Int{m.i64(n)}
	case "delete":
		mv := args[0].(MapV)
		if mv.M != nil {
			if i := m.mapFind(mv.M, args[1]); i >= 0 {
				mv.M.Keys = append(mv.M.Keys[:i:i], mv.M.Keys[i+1:]...)
				mv.M.Vals = append(mv.M.Vals[:i:i], mv.M.Vals[i+1:]...)
			}
		}
		return nil
	case "clear":
		switch x := args[0].(type) {
		case MapV:
			if x.M != nil {
				x.M.Keys, x.M.Vals = nil, nil
			}
			return nil
		case Slice:
			if x.Base.Obj == nil {
				return nil
			}
			elemT := cc.Args[0].Type().Underlying().(*types.Slice).Elem()
			cell, _ := m.resolve(x.Base)
			if isByte(elemT) {
				bc := cell.(*bytesCell)
				bc.r = m.ropeSplice(bc.r, x.Off, x.Len, m.zeroRope(x.Len))
				return nil
			}
			off, n := m.concreteInt(x.Off, "clear"), m.concreteInt(x.Len, "clear")
			for i := 0; i < n; i++ {
				m.storeCell(cell.(*arrCell).e[off+i], m.zeroValue(elemT))
			}
			return nil
		}
	case "verif.noop":
		return nil
	case "recover":
		if m.curPanic != nil && m.curPanic.panicking != nil {
			gp := m.curPanic.panicking
			m.curPanic.panicking = nil
			if gp.val != nil {
				return gp.val
			}
			return Iface{T: types.Typ[types.String], V: Str{m.litRope([]byte(gp.msg))}}
		}
		return Iface{}
	case "print", "println":
		return nil
	case "min", "max":
		a, b := args[0].(Int), args[1].(Int)
		lt := "bvult"
		if isSigned(cc.Args[0].Type()) {
			lt = "bvslt"
		}
		cond := c.Cmp(lt, a.T, b.T)
		if name == "min" {
			return Int{c.Ite(cond, a.T, b.T)}
		}
		return Int{c.Ite(cond, b.T, a.T)}
	}
	panic(unsupported("builtin " + name))
}

// ---- interception of harness intrinsics and selected library functions

func (m *Machine) intercept(fn *ssa.Function) (func([]Value) Value, bool) {
	name := fn.Name()
	c := m.C
	if strings.HasPrefix(name, "verif") && fn.Pkg != nil {
		switch name {
		case "verifNondetByte", "verifNondetU16", "verifNondetU32", "verifNondetU64", "verifNondetInt":
			w := map[string]int{"verifNondetByte": 8, "verifNondetU16": 16, "verifNondetU32": 32, "verifNondetU64": 64, "verifNondetInt": 64}[name]
			return func(args []Value) Value {
				tag := m.concreteString(args[0].(Str))
				if m.Concrete != nil {
					return Int{c.Const(w, m.nextConcrete(tag).Val)}
				}
				t := c.Var(m.freshName(tag), w)
				m.nondets = append(m.nondets, nondetRec{tag, t})
				m.events = append(m.events, event{tag: tag, term: t})
				return Int{t}
			}, true
		case "verifNondetBool":
			return func(args []Value) Value {
				tag := m.concreteString(args[0].(Str))
				if m.Concrete != nil {
					return Bool{c.Bool(m.nextConcrete(tag).Val != 0)}
				}
				t := c.Var(m.freshName(tag), 0)
				m.nondets = append(m.nondets, nondetRec{tag, t})
				m.events = append(m.events, event{tag: tag, term: t})
				return Bool{t}
			}, true
		case "verifNondetBytes":
			return func(args []Value) Value {
				tag := m.concreteString(args[0].(Str))
				n := args[1].(Int).T
				if m.Concrete != nil {
					rec := m.nextConcrete(tag)
					bs := make([]byte, n.Val)
					copy(bs, rec.Bytes)
					obj := m.newObj(nil, &bytesCell{m.litRope(bs)})
					return Slice{Base: Ptr{Obj: obj}, Off: m.i64(0), Len: n, Cap: n}
				}
				f := m.freshName(tag)
				var r Rope
				rec := bufRec{tag: tag, f: f, n: n}
				if n.IsConst() && n.Val <= 2048 {
					lit := make([]*sym.Term, n.Val)
					for i := range lit {
						lit[i] = c.Var(fmt.Sprintf("%s_b%d", f, i), 8)
					}
					r = &ropeLit{lit}
					rec.lit = lit
					rec.n = nil
					m.events = append(m.events, event{tag: tag, lit: lit, kind: 1})
				} else {
					r = &ropeSym{f, m.i64(0), n}
					m.events = append(m.events, event{tag: tag, term: n, kind: 3, f: f})
				}
				m.bufs = append(m.bufs, rec)
				obj := m.newObj(nil, &bytesCell{r})
				return Slice{Base: Ptr{Obj: obj}, Off: m.i64(0), Len: n, Cap: n}
			}, true
		case "verifAssume":
			return func(args []Value) Value {
				b := args[0].(Bool).T
				if b.IsTrue() {
					return nil
				}
				if m.Concrete != nil {
					panic(&pathEnd{"assume"})
				}
				if !m.sat(b) {
					panic(&pathEnd{"assume"})
				}
				m.pc = append(m.pc, b)
				return nil
			}, true
		case "verifAssert":
			return func(args []Value) Value {
				id := m.concreteString(args[0].(Str))
				b := args[1].(Bool).T
				if m.Concrete != nil {
					m.Log = append(m.Log, fmt.Sprintf("assert:%s=%v", id, b.IsTrue()))
					return nil
				}
				if m.Prop != "" && !strings.HasPrefix(id, m.Prop+".") {
					return nil // an obligation of another property: neither checked nor assumed in this run
				}
				if b.IsTrue() {
					m.Sh.Mu.Lock()
					m.Sh.Asserts[id]++
					m.Sh.Mu.Unlock()
					return nil
				}
				res, _ := m.S.CheckPC(m.pc, c.Not(b), nil)
				switch res {
				case sym.Unsat:
					m.Sh.Mu.Lock()
					m.Sh.Asserts[id]++
					m.Sh.Mu.Unlock()
					m.pc = append(m.pc, b)
					return nil
				case sym.Unknown:
					m.noteInconclusive(id)
					m.pc = append(m.pc, b)
					return nil
				}
				key := "assert:" + id + "|" + tagString(m.tags)
				if m.firstSeen(key) {
					st := m.streamNow(c.Not(b))
					if st == nil {
						m.noteInconclusive(id)
					} else {
						m.Sh.Mu.Lock()
						m.Sh.Violations = append(m.Sh.Violations, Violation{Harness: m.Name, ID: id, Kind: "assert", Tags: m.copyTags(), Path: append([]int(nil), m.taken...), Stream: st})
						m.Sh.Mu.Unlock()
					}
				}
				if !m.sat(b) {
					panic(&pathEnd{"assert-always-fails"})
				}
				m.pc = append(m.pc, b)
				return nil
			}, true
		case "verifBound":
			return func(args []Value) Value {
				if m.Tier > 0 {
					return args[1]
				}
				return args[0]
			}, true
		case "verifTag":
			return func(args []Value) Value {
				k := m.concreteString(args[0].(Str))
				v := args[1].(Int).T
				if !v.IsConst() {
					panic(unsupported("verifTag with a symbolic value: " + k))
				}
				m.tags[k] = v.Signed()
				return nil
			}, true
		case "verifActive":
			return func(args []Value) Value { return Bool{c.Bool(true)} }, true
		case "verifSymbolic":
			// reports whether the engine (not the native replay runtime) is executing
			return func(args []Value) Value { return Bool{c.Bool(m.Concrete == nil)} }, true
		case "verifSplitInt":
			return func(args []Value) Value {
				lo, hi := int(args[1].(Int).T.Signed()), int(args[2].(Int).T.Signed())
				if hi < lo {
					panic(&pathEnd{"assume"})
				}
				if m.Concrete != nil {
					return Int{m.i64(int(int64(m.nextConcrete(m.concreteString(args[0].(Str))).Val)))}
				}
				var d int
				if m.dpos < len(m.prefix) {
					d = m.prefix[m.dpos]
				} else {
					d = lo
					for k := hi; k > lo; k-- {
						m.work = append(m.work, append(append([]int(nil), m.taken...), k))
					}
				}
				m.dpos++
				m.taken = append(m.taken, d)
				stag := m.concreteString(args[0].(Str))
				m.events = append(m.events, event{tag: stag, conc: int64(d), kind: 2})
				m.Sh.Mu.Lock()
				if bb, ok := m.Sh.Bounds[stag]; !ok {
					m.Sh.Bounds[stag] = [2]int64{int64(lo), int64(hi)}
				} else {
					if int64(lo) < bb[0] {
						bb[0] = int64(lo)
					}
					if int64(hi) > bb[1] {
						bb[1] = int64(hi)
					}
					m.Sh.Bounds[stag] = bb
				}
				m.Sh.Mu.Unlock()
				return Int{m.i64(d)}
			}, true
		case "verifAnd":
			return func(args []Value) Value { return Bool{c.And(args[0].(Bool).T, args[1].(Bool).T)} }, true
		case "verifOr":
			return func(args []Value) Value { return Bool{c.Or(args[0].(Bool).T, args[1].(Bool).T)} }, true
		case "verifImplies":
			return func(args []Value) Value { return Bool{c.Implies(args[0].(Bool).T, args[1].(Bool).T)} }, true
		case "verifIteInt", "verifIteU64":
			return func(args []Value) Value { return Int{c.Ite(args[0].(Bool).T, args[1].(Int).T, args[2].(Int).T)} }, true
		case "verifUF":
			return func(args []Value) Value {
				tag := m.concreteString(args[0].(Str))
				outLen := int(args[1].(Int).T.Signed())
				if m.Concrete != nil {
					rec := m.nextConcrete("uf:" + tag)
					bs := make([]byte, outLen)
					copy(bs, rec.Bytes)
					obj := m.newObj(nil, &bytesCell{m.litRope(bs)})
					return Slice{Base: Ptr{Obj: obj}, Off: m.i64(0), Len: m.i64(outLen), Cap: m.i64(outLen)}
				}
				ins := args[2].(Slice)
				k := m.concreteInt(ins.Len, "verifUF inputs")
				var in [][]*sym.Term
				for i := 0; i < k; i++ {
					sv := m.load(extend(ins.Base, PathElem{Kind: 1, I: m.concreteInt(ins.Off, "off") + i})).(Slice)
					n := m.concreteInt(sv.Len, "verifUF input length")
					r := m.sliceRope(sv)
					v := make([]*sym.Term, n)
					for j := range v {
						v[j] = m.ropeAt(r, m.i64(j))
					}
					in = append(in, v)
				}
				same := func(a, b [][]*sym.Term) (bool, bool) { // identical, same shape
					if len(a) != len(b) {
						return false, false
					}
					ident := true
					for i := range a {
						if len(a[i]) != len(b[i]) {
							return false, false
						}
						for j := range a[i] {
							if a[i][j] != b[i][j] {
								ident = false
							}
						}
					}
					return ident, true
				}
				var out []*sym.Term
				for _, e := range m.ufs[tag] {
					if id, _ := same(e.in, in); id && len(e.out) == outLen {
						out = e.out
					}
				}
				if out == nil {
					f := m.freshName("uf_" + tag)
					out = make([]*sym.Term, outLen)
					for i := range out {
						out[i] = c.Var(fmt.Sprintf("%s_o%d", f, i), 8)
					}
					for _, e := range m.ufs[tag] {
						if _, shape := same(e.in, in); shape && len(e.out) == outLen {
							eqIn, eqOut := c.Bool(true), c.Bool(true)
							for i := range in {
								for j := range in[i] {
									eqIn = c.And(eqIn, c.Eq(in[i][j], e.in[i][j]))
								}
							}
							for i := range out {
								eqOut = c.And(eqOut, c.Eq(out[i], e.out[i]))
							}
							m.pc = append(m.pc, c.Implies(eqIn, eqOut))
						}
					}
					m.ufs[tag] = append(m.ufs[tag], ufEntry{in, out})
				}
				m.events = append(m.events, event{tag: "uf:" + tag, lit: out, kind: 1})
				obj := m.newObj(nil, &bytesCell{&ropeLit{append([]*sym.Term(nil), out...)}})
				return Slice{Base: Ptr{Obj: obj}, Off: m.i64(0), Len: m.i64(outLen), Cap: m.i64(outLen)}
			}, true
		case "verifReach":
			return func(args []Value) Value {
				id := m.concreteString(args[0].(Str))
				if m.Concrete != nil {
					m.Log = append(m.Log, "reach:"+id)
					return nil
				}
				m.Sh.Mu.Lock()
				m.Sh.Reached[id]++
				first := m.Sh.Reached[id] == 1
				m.Sh.Mu.Unlock()
				if first {
					if st := m.streamNow(nil); st != nil {
						m.Sh.Mu.Lock()
						m.Sh.Samples = append(m.Sh.Samples, Sample{Reach: id, Stream: st})
						m.Sh.Mu.Unlock()
					}
				}
				return nil
			}, true
		}
	}
	if strings.HasPrefix(name, "verifSpec") && !m.merging {
		return func(args []Value) Value { return m.callMerged(fn, args) }, true
	}
	full := fn.String()
	if m.Harness != nil && fn.Pkg != m.Harness {
		if hf := m.Harness.Func("verif_" + sanitize(full)); hf != nil {
			return func(args []Value) Value { return m.call(hf, args, nil) }, true
		}
	}
	switch full {
	case "(*sync.Mutex).Lock", "(*sync.RWMutex).Lock":
		return func(args []Value) Value {
			k := ptrKey(args[0].(Ptr))
			if m.heldK[k] {
				m.goPanic("self-deadlock: mutex locked twice on one goroutine")
			}
			m.heldK[k] = true
			return nil
		}, true
	case "(*sync.Mutex).Unlock", "(*sync.RWMutex).Unlock":
		return func(args []Value) Value {
			k := ptrKey(args[0].(Ptr))
			if !m.heldK[k] {
				m.goPanic("fatal error: sync: unlock of unlocked mutex")
			}
			delete(m.heldK, k)
			return nil
		}, true
	case "(*sync.Mutex).TryLock":
		return func(args []Value) Value {
			k := ptrKey(args[0].(Ptr))
			if m.heldK[k] {
				return m.truth(false)
			}
			m.heldK[k] = true
			return m.truth(true)
		}, true
	case "(*sync.RWMutex).RLock", "(*sync.RWMutex).RUnlock", "runtime.KeepAlive", "runtime.SetFinalizer", "fmt.Printf", "fmt.Println", "fmt.Print":
		return func(args []Value) Value {
			if fn.Signature.Results().Len() > 0 {
				return m.zeroValue(fn.Signature.Results())
			}
			return nil
		}, true
	case "(*sync.Pool).Put":
		return func(args []Value) Value { return nil }, true
	case "(*sync.Pool).Get":
		return func(args []Value) Value {
			// Pool.New is field index of "New" in sync.Pool
			pt := fn.Signature.Recv().Type().(*types.Pointer).Elem().Underlying().(*types.Struct)
			for i := 0; i < pt.NumFields(); i++ {
				if pt.Field(i).Name() == "New" {
					nf := m.load(extend(args[0].(Ptr), PathElem{Kind: 0, I: i}))
					return m.callValue(nf, nil)
				}
			}
			panic(unsupported("sync.Pool without New"))
		}, true
	case "fmt.Errorf", "errors.New":
		return func(args []Value) Value {
			ep := m.Prog.ImportedPackage("errors")
			et := ep.Type("errorString").Type()
			obj := m.newObj(et, m.zeroCell(et))
			if s, ok := args[0].(Str); ok {
				m.store(extend(Ptr{Obj: obj}, PathElem{Kind: 0, I: 0}), s)
			}
			return Iface{T: types.NewPointer(et), V: Ptr{Obj: obj}}
		}, true
	case "time.Now":
		// a fixed instant (wall = 0, ext = seconds since year 1, no monotonic reading): harnesses that need an
		// arbitrary clock install Config.Time (E3); everything else only stamps deadlines and creation times
		return func(args []Value) Value {
			tt := fn.Signature.Results().At(0).Type()
			v := m.zeroValue(tt).(Struct)
			st := tt.Underlying().(*types.Struct)
			for i := 0; i < st.NumFields(); i++ {
				if st.Field(i).Name() == "ext" {
					v.F[i] = Int{c.Const(64, 63900000000)}
				}
			}
			return v
		}, true
	case "(net.IP).String":
		// textual form of an IP address whose bytes are concrete (the standard library goes through net/netip with
		// slice-to-array-pointer conversions the interpreter does not implement): computed natively
		return func(args []Value) Value {
			r, n := m.bytesOf(args[0])
			k := m.concreteInt(n, "net.IP length")
			b := make([]byte, k)
			for i := range b {
				t := m.ropeAt(r, m.i64(i))
				if !t.IsConst() {
					panic(unsupported("(net.IP).String of a symbolic address"))
				}
				b[i] = byte(t.Val)
			}
			return Str{m.litRope([]byte(net.IP(b).String()))}
		}, true
	case "internal/bytealg.IndexByteString", "internal/bytealg.IndexByte":
		// first index of byte c in s (length concrete; contents may be symbolic: one fork per position)
		return func(args []Value) Value {
			r, n := m.bytesOf(args[0])
			k := m.concreteInt(n, "IndexByte length")
			cb := args[1].(Int).T
			for i := 0; i < k; i++ {
				if m.branch(c.Eq(m.ropeAt(r, m.i64(i)), cb)) {
					return Int{m.i64(i)}
				}
			}
			return Int{m.i64(-1)}
		}, true
	case "internal/bytealg.CountString", "internal/bytealg.Count":
		return func(args []Value) Value {
			r, n := m.bytesOf(args[0])
			k := m.concreteInt(n, "Count length")
			cb := args[1].(Int).T
			cnt := 0
			for i := 0; i < k; i++ {
				if m.branch(c.Eq(m.ropeAt(r, m.i64(i)), cb)) {
					cnt++
				}
			}
			return Int{m.i64(cnt)}
		}, true
	case "context.WithCancel":
		// inert model: the derived context is the parent, cancelling does nothing (no goroutines are modelled)
		return func(args []Value) Value {
			return Tuple{V: []Value{args[0], Func{Builtin: "verif.noop"}}}
		}, true
	case "errors.As":
		// model: walk the Unwrap chain; a link matches when its dynamic type is identical to the target's element type
		return func(args []Value) Value {
			err := args[0].(Iface)
			tgt := args[1].(Iface)
			pt, ok := tgt.T.(*types.Pointer)
			if !ok {
				panic(unsupported("errors.As with a non-pointer target"))
			}
			for depth := 0; err.T != nil && depth < 8; depth++ {
				if types.Identical(err.T, pt.Elem()) {
					m.store(tgt.V.(Ptr), err.V)
					return m.truth(true)
				}
				if it, isI := pt.Elem().Underlying().(*types.Interface); isI && types.Implements(err.T, it) {
					m.store(tgt.V.(Ptr), err)
					return m.truth(true)
				}
				ms := m.Prog.MethodSets.MethodSet(err.T)
				sel := ms.Lookup(nil, "Unwrap")
				if sel == nil {
					break
				}
				next := m.call(m.Prog.MethodValue(sel), []Value{err.V}, nil)
				ni, isI := next.(Iface)
				if !isI {
					break
				}
				err = ni
			}
			return m.truth(false)
		}, true
	case "errors.Is":
		return func(args []Value) Value {
			err := args[0].(Iface)
			tgt := args[1].(Iface)
			for depth := 0; err.T != nil && depth < 8; depth++ {
				if m.branch(m.ifaceEq(err, tgt)) {
					return m.truth(true)
				}
				ms := m.Prog.MethodSets.MethodSet(err.T)
				sel := ms.Lookup(nil, "Unwrap")
				if sel == nil {
					break
				}
				next := m.call(m.Prog.MethodValue(sel), []Value{err.V}, nil)
				ni, isI := next.(Iface)
				if !isI {
					break
				}
				err = ni
			}
			return m.truth(false)
		}, true
	case "fmt.Sprintf", "fmt.Sprint":
		return func(args []Value) Value { return Str{m.litRope([]byte("<fmt>"))} }, true
	case "sync/atomic.LoadUint32", "sync/atomic.LoadInt32", "sync/atomic.LoadInt64", "sync/atomic.LoadUint64":
		return func(args []Value) Value { return m.load(args[0].(Ptr)) }, true
	case "sync/atomic.StoreUint32", "sync/atomic.StoreInt32", "sync/atomic.StoreInt64", "sync/atomic.StoreUint64":
		return func(args []Value) Value { m.store(args[0].(Ptr), args[1]); return nil }, true
	case "sync/atomic.AddInt32", "sync/atomic.AddInt64", "sync/atomic.AddUint32", "sync/atomic.AddUint64":
		return func(args []Value) Value {
			p := args[0].(Ptr)
			v := Int{c.Bin("bvadd", m.load(p).(Int).T, args[1].(Int).T)}
			m.store(p, v)
			return v
		}, true
	case "sync/atomic.CompareAndSwapInt32", "sync/atomic.CompareAndSwapUint32":
		return func(args []Value) Value {
			p := args[0].(Ptr)
			if m.branch(c.Eq(m.load(p).(Int).T, args[1].(Int).T)) {
				m.store(p, args[2])
				return m.truth(true)
			}
			return m.truth(false)
		}, true
	}
	// skip other packages' initialisers unless they are the one being run on demand
	if name == "init" && fn.Pkg != nil && fn.Synthetic != "" {
		if len(m.stack) > 0 && m.stack[len(m.stack)-1] != "" {
			// nested init call from another init: run lazily on first global access instead
			callerIsInit := strings.HasSuffix(m.stack[len(m.stack)-1], ".init")
			if callerIsInit {
				return func(args []Value) Value { return nil }, true
			}
		}
	}
	return nil, false
}

func ptrKey(p Ptr) string {
	if p.Obj == nil {
		return "nil"
	}
	k := fmt.Sprintf("o%d", p.Obj.ID)
	for _, pe := range p.Path {
		k += fmt.Sprintf(".%d:%d", pe.Kind, pe.I)
	}
	return k
}

// MutexHeld reports whether the mutex at p is held (used by the verifMutexHeld intrinsic).
func (m *Machine) mutexHeld(p Ptr) bool { return m.heldK[ptrKey(p)] }
