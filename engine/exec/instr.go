package exec

import (
	"fmt"
	"sort"
	"go/token"
	"go/types"

	"golang.org/x/tools/go/ssa"

	"gosmt/sym"
)

func (m *Machine) exec(fr *frame, ins ssa.Instruction) {
	switch x := ins.(type) {
	case *ssa.DebugRef:
	case *ssa.Alloc:
		et := x.Type().(*types.Pointer).Elem()
		fr.locals[x] = Ptr{Obj: m.newObj(et, m.zeroCell(et))}
	case *ssa.BinOp:
		fr.locals[x] = m.binop(x.Op, m.get(fr, x.X), m.get(fr, x.Y), x.X.Type(), x.Y.Type())
	case *ssa.UnOp:
		fr.locals[x] = m.unop(fr, x)
	case *ssa.Call:
		fr.locals[x] = m.doCall(fr, &x.Call)
	case *ssa.ChangeInterface:
		fr.locals[x] = m.get(fr, x.X)
	case *ssa.ChangeType:
		fr.locals[x] = m.get(fr, x.X)
	case *ssa.Convert:
		fr.locals[x] = m.convert(m.get(fr, x.X), x.X.Type(), x.Type())
	case *ssa.Defer:
		cc := x.Call
		if cc.IsInvoke() {
			recv := m.get(fr, cc.Value)
			var args []Value
			for _, a := range cc.Args {
				args = append(args, m.get(fr, a))
			}
			fr.defers = append(fr.defers, func() {
				iv := recv.(Iface)
				ms := m.Prog.MethodSets.MethodSet(iv.T)
				fn := m.Prog.MethodValue(ms.Lookup(cc.Method.Pkg(), cc.Method.Name()))
				m.call(fn, append([]Value{iv.V}, args...), nil)
			})
		} else {
			fv := m.get(fr, cc.Value)
			var args []Value
			for _, a := range cc.Args {
				args = append(args, m.get(fr, a))
			}
			fr.defers = append(fr.defers, func() { m.callValue(fv, args) })
		}
	case *ssa.RunDefers:
		m.runDefers(fr)
	case *ssa.Extract:
		fr.locals[x] = m.get(fr, x.Tuple).(Tuple).V[x.Index]
	case *ssa.Field:
		fr.locals[x] = m.get(fr, x.X).(Struct).F[x.Field]
	case *ssa.FieldAddr:
		p := m.get(fr, x.X).(Ptr)
		if p.Obj == nil {
			m.goPanic("invalid memory address or nil pointer dereference")
		}
		fr.locals[x] = extend(p, PathElem{Kind: 0, I: x.Field})
	case *ssa.Index:
		fr.locals[x] = m.index(m.get(fr, x.X), m.idx64(fr, x.Index))
	case *ssa.IndexAddr:
		fr.locals[x] = m.indexAddr(m.get(fr, x.X), x.X.Type(), m.idx64(fr, x.Index))
	case *ssa.Lookup:
		fr.locals[x] = m.lookup(m.get(fr, x.X), m.get(fr, x.Index), x)
	case *ssa.MakeClosure:
		var bind []Value
		for _, b := range x.Bindings {
			bind = append(bind, m.get(fr, b))
		}
		fr.locals[x] = Func{Fn: x.Fn.(*ssa.Function), Bind: bind}
	case *ssa.MakeInterface:
		fr.locals[x] = Iface{T: x.X.Type(), V: m.get(fr, x.X)}
	case *ssa.MakeMap:
		fr.locals[x] = MapV{&MapObj{}}
	case *ssa.MakeSlice:
		fr.locals[x] = m.makeSlice(x.Type(), m.idx64(fr, x.Len), m.idx64(fr, x.Cap))
	case *ssa.MapUpdate:
		mv := m.get(fr, x.Map).(MapV)
		if mv.M == nil {
			m.goPanic("assignment to entry in nil map")
		}
		k, v := m.get(fr, x.Key), m.get(fr, x.Value)
		if i := m.mapFind(mv.M, k); i >= 0 {
			mv.M.Vals[i] = v
		} else {
			mv.M.Keys = append(mv.M.Keys, k)
			mv.M.Vals = append(mv.M.Vals, v)
		}
	case *ssa.Range:
		switch v := m.get(fr, x.X).(type) {
		case MapV:
			it := &rangeIter{}
			if v.M != nil {
				it.keys = append(it.keys, v.M.Keys...)
				it.vals = append(it.vals, v.M.Vals...)
			}
			fr.locals[x] = it
		default:
			panic(unsupported(fmt.Sprintf("range over %T", v)))
		}
	case *ssa.Next:
		it := m.get(fr, x.Iter).(*rangeIter)
		if it.pos < len(it.keys) {
			fr.locals[x] = Tuple{[]Value{Bool{m.C.Bool(true)}, it.keys[it.pos], it.vals[it.pos]}}
			it.pos++
		} else {
			fr.locals[x] = Tuple{[]Value{Bool{m.C.Bool(false)}, nil, nil}}
		}
	case *ssa.Select:
		// only the non-blocking poll of channels that are all nil (context.Background().Done()) is modelled:
		// the default case is taken
		if x.Blocking {
			panic(unsupported("blocking select in " + fr.fn.String()))
		}
		res := Tuple{V: []Value{Int{m.i64(-1)}, m.truth(false)}}
		for _, st := range x.States {
			if p, ok := m.get(fr, st.Chan).(Ptr); !ok || p.Obj != nil {
				panic(unsupported("select on a non-nil channel in " + fr.fn.String()))
			}
			if st.Dir == types.RecvOnly {
				res.V = append(res.V, m.zeroValue(st.Chan.Type().Underlying().(*types.Chan).Elem()))
			}
		}
		fr.locals[x] = res
	case *ssa.Slice:
		fr.locals[x] = m.sliceOp(fr, x)
	case *ssa.Store:
		m.store(m.get(fr, x.Addr).(Ptr), m.get(fr, x.Val))
	case *ssa.TypeAssert:
		fr.locals[x] = m.typeAssert(x, m.get(fr, x.X).(Iface))
	default:
		panic(unsupported(fmt.Sprintf("instruction %T in %s", ins, fr.fn)))
	}
}

type rangeIter struct {
	keys, vals []Value
	pos        int
}

func (m *Machine) unop(fr *frame, x *ssa.UnOp) Value {
	v := m.get(fr, x.X)
	switch x.Op {
	case token.MUL:
		return m.load(v.(Ptr))
	case token.NOT:
		return Bool{m.C.Not(v.(Bool).T)}
	case token.SUB:
		return Int{m.C.BvNeg(v.(Int).T)}
	case token.XOR:
		return Int{m.C.BvNot(v.(Int).T)}
	}
	panic(unsupported("unop " + x.Op.String()))
}

// idx64 widens an index/length operand of any integer type to 64 bits.
func (m *Machine) idx64(fr *frame, v ssa.Value) *sym.Term {
	t := m.get(fr, v).(Int).T
	if t.W == 64 {
		return t
	}
	if isSigned(v.Type()) {
		return m.C.SExt(t, 64)
	}
	return m.C.ZExt(t, 64)
}

func (m *Machine) truth(b bool) Value { return Bool{m.C.Bool(b)} }

func (m *Machine) binop(op token.Token, a, b Value, ta, tb types.Type) Value {
	c := m.C
	switch x := a.(type) {
	case Int:
		y := b.(Int)
		signed := isSigned(ta)
		switch op {
		case token.ADD:
			return Int{c.Bin("bvadd", x.T, y.T)}
		case token.SUB:
			return Int{c.Bin("bvsub", x.T, y.T)}
		case token.MUL:
			return Int{c.Bin("bvmul", x.T, y.T)}
		case token.AND:
			return Int{c.Bin("bvand", x.T, y.T)}
		case token.OR:
			return Int{c.Bin("bvor", x.T, y.T)}
		case token.XOR:
			return Int{c.Bin("bvxor", x.T, y.T)}
		case token.AND_NOT:
			return Int{c.Bin("bvand", x.T, c.BvNot(y.T))}
		case token.QUO, token.REM:
			if m.branch(c.Eq(y.T, c.Const(y.T.W, 0))) {
				m.goPanic("integer divide by zero")
			}
			o := map[bool]map[token.Token]string{true: {token.QUO: "bvsdiv", token.REM: "bvsrem"}, false: {token.QUO: "bvudiv", token.REM: "bvurem"}}[signed][op]
			return Int{c.Bin(o, x.T, y.T)}
		case token.SHL, token.SHR:
			sh := y.T
			w := x.T.W
			if isSigned(tb) {
				if m.branch(c.Cmp("bvslt", sh, c.Const(sh.W, 0))) {
					m.goPanic("negative shift amount")
				}
			}
			o := "bvshl"
			if op == token.SHR {
				o = "bvlshr"
				if signed {
					o = "bvashr"
				}
			}
			if sh.W > w {
				big := c.Cmp("bvule", c.Const(sh.W, uint64(w)), sh)
				small := c.Bin(o, x.T, c.Extract(sh, w-1, 0))
				var over *sym.Term
				if o == "bvashr" {
					over = c.Bin("bvashr", x.T, c.Const(w, uint64(w-1)))
				} else {
					over = c.Const(w, 0)
				}
				return Int{c.Ite(big, over, small)}
			}
			return Int{c.Bin(o, x.T, c.ZExt(sh, w))}
		case token.EQL:
			return Bool{c.Eq(x.T, y.T)}
		case token.NEQ:
			return Bool{c.Not(c.Eq(x.T, y.T))}
		case token.LSS, token.LEQ, token.GTR, token.GEQ:
			lt, le := "bvult", "bvule"
			if signed {
				lt, le = "bvslt", "bvsle"
			}
			switch op {
			case token.LSS:
				return Bool{c.Cmp(lt, x.T, y.T)}
			case token.LEQ:
				return Bool{c.Cmp(le, x.T, y.T)}
			case token.GTR:
				return Bool{c.Cmp(lt, y.T, x.T)}
			default:
				return Bool{c.Cmp(le, y.T, x.T)}
			}
		}
	case Bool:
		y := b.(Bool)
		switch op {
		case token.EQL:
			return Bool{c.Eq(x.T, y.T)}
		case token.NEQ:
			return Bool{c.Not(c.Eq(x.T, y.T))}
		case token.AND:
			return Bool{c.And(x.T, y.T)}
		case token.OR:
			return Bool{c.Or(x.T, y.T)}
		}
	case Str:
		y := b.(Str)
		switch op {
		case token.ADD:
			return Str{m.ropeCatOf(x.R, y.R)}
		case token.EQL:
			return Bool{m.ropeEq(x.R, y.R)}
		case token.NEQ:
			return Bool{c.Not(m.ropeEq(x.R, y.R))}
		}
	case Struct, Array:
		eq := m.valueEq(a, b)
		if op == token.EQL {
			return Bool{eq}
		}
		if op == token.NEQ {
			return Bool{c.Not(eq)}
		}
	case ByteArr:
		y := b.(ByteArr)
		eq := m.ropeEq(x.R, y.R)
		if op == token.EQL {
			return Bool{eq}
		}
		if op == token.NEQ {
			return Bool{c.Not(eq)}
		}
	case Ptr:
		y := b.(Ptr)
		eq := m.ptrEq(x, y)
		if op == token.EQL {
			return Bool{eq}
		}
		if op == token.NEQ {
			return Bool{c.Not(eq)}
		}
	case Iface:
		y := b.(Iface)
		eq := m.ifaceEq(x, y)
		if op == token.EQL {
			return Bool{eq}
		}
		if op == token.NEQ {
			return Bool{c.Not(eq)}
		}
	case Slice:
		y := b.(Slice)
		isnil := x.Base.Obj == nil
		if y.Base.Obj != nil {
			panic(unsupported("slice comparison with non-nil"))
		}
		if op == token.EQL {
			return m.truth(isnil)
		}
		return m.truth(!isnil)
	case MapV:
		if op == token.EQL {
			return m.truth(x.M == nil)
		}
		return m.truth(x.M != nil)
	case Func:
		isnil := x.Fn == nil && x.Builtin == ""
		if op == token.EQL {
			return m.truth(isnil)
		}
		return m.truth(!isnil)
	}
	panic(unsupported(fmt.Sprintf("binop %s on %T", op, a)))
}

func (m *Machine) ropeEq(a, b Rope) *sym.Term {
	la, lb := m.ropeLen(a), m.ropeLen(b)
	c := m.C
	switch {
	case la.IsConst() && lb.IsConst():
		if la.Val != lb.Val {
			return c.Bool(false)
		}
		return m.ropeEqN(a, b, int(la.Val))
	case la.IsConst():
		a, b, la, lb = b, a, lb, la
		fallthrough
	case lb.IsConst():
		// a symbolic length, b concrete: fork on the length so indices stay in range
		if !m.branch(c.Eq(la, lb)) {
			return c.Bool(false)
		}
		return m.ropeEqN(a, b, int(lb.Val))
	}
	panic(unsupported("comparison of two symbolic-length byte strings"))
}

func (m *Machine) ptrEq(x, y Ptr) *sym.Term {
	if x.Obj != y.Obj || len(x.Path) != len(y.Path) {
		return m.C.Bool(false)
	}
	res := m.C.Bool(true)
	for i := range x.Path {
		a, b := x.Path[i], y.Path[i]
		if a.Kind != b.Kind {
			return m.C.Bool(false)
		}
		if a.Kind == 2 {
			res = m.C.And(res, m.C.Eq(a.T, b.T))
		} else if a.I != b.I {
			return m.C.Bool(false)
		}
	}
	return res
}

func (m *Machine) ifaceEq(x, y Iface) *sym.Term {
	if x.T == nil || y.T == nil {
		return m.C.Bool(x.T == nil && y.T == nil)
	}
	if !types.Identical(x.T, y.T) {
		return m.C.Bool(false)
	}
	switch a := x.V.(type) {
	case Ptr:
		return m.ptrEq(a, y.V.(Ptr))
	case Int:
		return m.C.Eq(a.T, y.V.(Int).T)
	case Bool:
		return m.C.Eq(a.T, y.V.(Bool).T)
	case Str:
		return m.ropeEq(a.R, y.V.(Str).R)
	case Struct:
		if len(a.F) == 0 {
			return m.C.Bool(true)
		}
	}
	panic(unsupported(fmt.Sprintf("interface comparison of %T", x.V)))
}

func (m *Machine) convert(v Value, from, to types.Type) Value {
	switch x := v.(type) {
	case Int:
		tw := widthOf(to)
		if tw > 0 {
			if isSigned(from) {
				return Int{m.C.SExt(x.T, tw)}
			}
			return Int{m.C.ZExt(x.T, tw)}
		}
	case Str:
		if _, ok := to.Underlying().(*types.Slice); ok {
			n := m.ropeLen(x.R)
			obj := m.newObj(nil, &bytesCell{x.R})
			return Slice{Base: Ptr{Obj: obj}, Off: m.i64(0), Len: n, Cap: n}
		}
		if b, ok := to.Underlying().(*types.Basic); ok && b.Info()&types.IsString != 0 {
			return x
		}
	case Slice:
		if b, ok := to.Underlying().(*types.Basic); ok && b.Info()&types.IsString != 0 {
			return Str{m.sliceRope(x)}
		}
		if _, ok := to.Underlying().(*types.Slice); ok {
			return x
		}
	case Ptr:
		return x
	}
	panic(unsupported(fmt.Sprintf("convert %T from %s to %s", v, from, to)))
}

// sliceRope returns the current contents of a byte slice as a rope (snapshot).
func (m *Machine) sliceRope(s Slice) Rope {
	if s.Base.Obj == nil {
		return &ropeLit{nil}
	}
	c, _ := m.resolve(s.Base)
	return m.ropeSubOf(c.(*bytesCell).r, s.Off, s.Len)
}

func (m *Machine) checkIndex(i, n *sym.Term) {
	ok := m.C.Cmp("bvult", i, n)
	if !m.branch(ok) {
		is, ns := "?", "?"
		if i.IsConst() {
			is = fmt.Sprint(i.Signed())
		}
		if n.IsConst() {
			ns = fmt.Sprint(n.Val)
		}
		m.goPanic(fmt.Sprintf("index out of range [%s] with length %s", is, ns))
	}
}

func (m *Machine) concreteInt(t *sym.Term, what string) int {
	if !t.IsConst() {
		k := m.enumInt(t, 1<<20)
		if !k.IsConst() {
			panic(unsupported("could not concretise " + what))
		}
		return int(k.Signed())
	}
	return int(t.Signed())
}

// enumInt case-splits a symbolic term over its feasible values (asked from the solver: one query per
// value plus one), each value becoming its own path. The chosen value is stored in the decision vector so
// that re-executions stay aligned. Terms with more than 300 feasible values stay symbolic.
func (m *Machine) enumInt(t *sym.Term, max int) *sym.Term {
	if t.IsConst() {
		return t
	}
	var v uint64
	if m.dpos < len(m.prefix) {
		d := m.prefix[m.dpos]
		if d == enumKeepSymbolic {
			m.dpos++
			m.taken = append(m.taken, d)
			return t
		}
		v = uint64(d)
	} else {
		var vals []uint64
		excl := m.C.Bool(true)
		for len(vals) <= 300 {
			res, mv := m.S.CheckPC(m.pc, excl, []*sym.Term{t})
			if res == sym.Unknown {
				m.noteInconclusive("enumeration")
				break
			}
			if res != sym.Sat {
				break
			}
			x := mv[t]
			vals = append(vals, x)
			excl = m.C.And(excl, m.C.Not(m.C.Eq(t, m.C.Const(t.W, x))))
		}
		if len(vals) == 0 {
			m.Stats.Infeasible++
			panic(&pathEnd{"infeasible"})
		}
		if len(vals) > 300 {
			m.dpos++
			m.taken = append(m.taken, enumKeepSymbolic)
			return t
		}
		sort.Slice(vals, func(i, j int) bool { return vals[i] < vals[j] })
		v = vals[0]
		for _, o := range vals[1:] {
			m.work = append(m.work, append(append([]int(nil), m.taken...), int(o)))
		}
		if len(vals) > 1 {
			m.Stats.Forks += len(vals) - 1
		}
	}
	m.dpos++
	m.taken = append(m.taken, int(v))
	k := m.C.Const(t.W, v)
	m.pc = append(m.pc, m.C.Eq(t, k))
	return k
}

const enumKeepSymbolic = -0x7fffffff

func (m *Machine) index(v Value, i *sym.Term) Value {
	switch x := v.(type) {
	case Str:
		m.checkIndex(i, m.ropeLen(x.R))
		return Int{m.ropeAt(x.R, i)}
	case ByteArr:
		m.checkIndex(i, m.ropeLen(x.R))
		return Int{m.ropeAt(x.R, i)}
	case Array:
		m.checkIndex(i, m.i64(len(x.E)))
		return x.E[m.concreteInt(i, "array index")]
	}
	panic(unsupported(fmt.Sprintf("index on %T", v)))
}

func (m *Machine) indexAddr(v Value, t types.Type, i *sym.Term) Value {
	switch x := v.(type) {
	case Slice:
		m.checkIndex(i, x.Len)
		elem := t.Underlying().(*types.Slice).Elem()
		if isByte(elem) {
			return extend(x.Base, PathElem{Kind: 2, T: m.C.Bin("bvadd", x.Off, i)})
		}
		k := m.concreteInt(m.C.Bin("bvadd", x.Off, i), "slice index")
		return extend(x.Base, PathElem{Kind: 1, I: k})
	case Ptr:
		if x.Obj == nil {
			m.goPanic("invalid memory address or nil pointer dereference")
		}
		at := t.Underlying().(*types.Pointer).Elem().Underlying().(*types.Array)
		m.checkIndex(i, m.i64(int(at.Len())))
		if isByte(at.Elem()) {
			return extend(x, PathElem{Kind: 2, T: i})
		}
		return extend(x, PathElem{Kind: 1, I: m.concreteInt(i, "array index")})
	}
	panic(unsupported(fmt.Sprintf("indexAddr on %T", v)))
}

func (m *Machine) makeSlice(t types.Type, n, cp *sym.Term) Value {
	if !m.branch(m.C.Cmp("bvule", n, cp)) || !m.branch(m.C.Cmp("bvule", cp, m.C.Const(64, 1<<40))) {
		m.goPanic("makeslice: len out of range")
	}
	elem := t.Underlying().(*types.Slice).Elem()
	if m.SplitBounds {
		n = m.enumInt(n, 64)
		cp = m.enumInt(cp, 64)
	}
	if isByte(elem) {
		obj := m.newObj(nil, &bytesCell{m.zeroRope(cp)})
		return Slice{Base: Ptr{Obj: obj}, Off: m.i64(0), Len: n, Cap: cp}
	}
	k := m.concreteInt(cp, "make cap")
	ac := &arrCell{e: make([]Cell, k)}
	for i := range ac.e {
		ac.e[i] = m.zeroCell(elem)
	}
	obj := m.newObj(nil, ac)
	return Slice{Base: Ptr{Obj: obj}, Off: m.i64(0), Len: n, Cap: cp}
}

func (m *Machine) sliceOp(fr *frame, x *ssa.Slice) Value {
	c := m.C
	opt := func(v ssa.Value, def *sym.Term) *sym.Term {
		if v == nil {
			return def
		}
		return m.idx64(fr, v)
	}
	check := func(lo, hi, mx *sym.Term) {
		if !m.branch(c.Cmp("bvule", hi, mx)) {
			m.goPanic("slice bounds out of range [:hi] with capacity/length")
		}
		if !m.branch(c.Cmp("bvule", lo, hi)) {
			m.goPanic("slice bounds out of range [lo:hi]")
		}
	}
	switch v := m.get(fr, x.X).(type) {
	case Slice:
		lo := opt(x.Low, m.i64(0))
		hi := opt(x.High, v.Len)
		mx := opt(x.Max, v.Cap)
		if x.Max != nil {
			if !m.branch(c.Cmp("bvule", mx, v.Cap)) {
				m.goPanic("slice bounds out of range [::max]")
			}
		}
		check(lo, hi, mx)
		if v.Base.Obj == nil {
			return v
		}
		if m.SplitBounds && v.Cap.IsConst() && v.Cap.Val <= 128 {
			lo = m.enumInt(lo, int(v.Cap.Val))
			hi = m.enumInt(hi, int(v.Cap.Val))
		}
		return Slice{Base: v.Base, Off: c.Bin("bvadd", v.Off, lo), Len: c.Bin("bvsub", hi, lo), Cap: c.Bin("bvsub", mx, lo)}
	case Str:
		n := m.ropeLen(v.R)
		lo := opt(x.Low, m.i64(0))
		hi := opt(x.High, n)
		check(lo, hi, n)
		return Str{m.ropeSubOf(v.R, lo, c.Bin("bvsub", hi, lo))}
	case Ptr: // *array
		if v.Obj == nil {
			m.goPanic("invalid memory address or nil pointer dereference")
		}
		at := x.X.Type().Underlying().(*types.Pointer).Elem().Underlying().(*types.Array)
		n := m.i64(int(at.Len()))
		lo := opt(x.Low, m.i64(0))
		hi := opt(x.High, n)
		mx := opt(x.Max, n)
		check(lo, hi, mx)
		return Slice{Base: v, Off: lo, Len: c.Bin("bvsub", hi, lo), Cap: c.Bin("bvsub", mx, lo)}
	}
	panic(unsupported("slice of unknown"))
}

func (m *Machine) typeAssert(x *ssa.TypeAssert, iv Iface) Value {
	ok := false
	var res Value
	if iv.T != nil {
		if it, isI := x.AssertedType.Underlying().(*types.Interface); isI {
			ok = types.Implements(iv.T, it)
			res = iv
		} else {
			ok = types.Identical(iv.T, x.AssertedType)
			res = iv.V
		}
	}
	if x.CommaOk {
		if !ok {
			res = m.zeroValue(x.AssertedType)
		}
		return Tuple{[]Value{res, m.truth(ok)}}
	}
	if !ok {
		dyn := "nil"
		if iv.T != nil {
			dyn = iv.T.String()
		}
		m.goPanic(fmt.Sprintf("interface conversion: interface is %s, not %s", dyn, x.AssertedType))
	}
	return res
}

func (m *Machine) valueEq(a, b Value) *sym.Term {
	switch x := a.(type) {
	case Int:
		return m.C.Eq(x.T, b.(Int).T)
	case Bool:
		return m.C.Eq(x.T, b.(Bool).T)
	case Str:
		return m.ropeEq(x.R, b.(Str).R)
	case Ptr:
		return m.ptrEq(x, b.(Ptr))
	case Iface:
		return m.ifaceEq(x, b.(Iface))
	case ByteArr:
		return m.ropeEq(x.R, b.(ByteArr).R)
	case Struct:
		y := b.(Struct)
		res := m.C.Bool(true)
		for i := range x.F {
			res = m.C.And(res, m.valueEq(x.F[i], y.F[i]))
		}
		return res
	case Array:
		y := b.(Array)
		res := m.C.Bool(true)
		for i := range x.E {
			res = m.C.And(res, m.valueEq(x.E[i], y.E[i]))
		}
		return res
	}
	panic(unsupported(fmt.Sprintf("comparison of %T", a)))
}

func (m *Machine) mapFind(mo *MapObj, k Value) int {
	for i, kk := range mo.Keys {
		if m.branch(m.valueEq(kk, k)) {
			return i
		}
	}
	return -1
}

func (m *Machine) lookup(x Value, k Value, ins *ssa.Lookup) Value {
	switch v := x.(type) {
	case MapV:
		idx := -1
		if v.M != nil {
			idx = m.mapFind(v.M, k)
		}
		var val Value
		if idx >= 0 {
			val = v.M.Vals[idx]
		} else {
			val = m.zeroValue(ins.X.Type().Underlying().(*types.Map).Elem())
		}
		if ins.CommaOk {
			return Tuple{[]Value{val, m.truth(idx >= 0)}}
		}
		return val
	case Str:
		i := k.(Int).T
		m.checkIndex(i, m.ropeLen(v.R))
		return Int{m.ropeAt(v.R, i)}
	}
	panic(unsupported("lookup"))
}
