#!/bin/sh
# usage: tools/mutcheck.sh <patch.diff> <property> [extra verifchk args]
# applies the patch to /repo, runs the quick check of the property, reverts /repo. Prints the verdict.
patch="$1"; prop="$2"; shift 2
git -C /repo diff --quiet || { echo "repo dirty"; exit 3; }
git -C /repo apply "$patch" || { echo "PATCH DOES NOT APPLY"; exit 3; }
/verif/bin/verifchk check "$prop" --noevidence --novalidate "$@" > /tmp/mutcheck.$$.log 2>&1
rc=$?
git -C /repo checkout -- .
grep -E "^(VIOLATION|CHECK-BROKEN|INCONCLUSIVE|KNOWN-FINDING)|^  harness=|^property=" /tmp/mutcheck.$$.log | head -30
rm -f /tmp/mutcheck.$$.log
echo "exit=$rc"
