#!/bin/sh
# usage: tools/mutsweep.sh [seed-id ...]   (default: all under /verif/seeded)
# Runs the quick check of each seeded change's property against a scratch worktree of /repo HEAD with the
# patch applied (VERIF_REPO points the checker at it; /repo itself is never touched), and records the
# verdict in seeded/<id>/meta.json ("detected_by").
root=$(cd "$(dirname "$0")/.." && pwd)
cd "$root"
export VERIF_ROOT="$root"
[ -x bin/verifchk ] || (cd engine && GOFLAGS=-mod=mod GOPROXY=off go build -o "$root/bin/verifchk" ./cmd/verifchk) || exit 3
ids="$@"; [ -z "$ids" ] && ids=$(ls seeded)
wt=/tmp/sweeprepo-$$
git -C /repo worktree add -q --detach $wt HEAD || exit 3
trap 'git -C /repo worktree remove --force '$wt' 2>/dev/null' EXIT
for id in $ids; do
  prop=$(python3 -c "import json;print(json.load(open('seeded/$id/meta.json'))['property'])")
  git -C $wt checkout -q -- . ; git -C $wt clean -fdq
  if ! git -C $wt apply "$root/seeded/$id/patch.diff" 2>/dev/null; then echo "SWEEP $id $prop PATCH-DOES-NOT-APPLY"; continue; fi
  out=$(VERIF_REPO=$wt timeout 900 ./bin/verifchk check $prop --noevidence --novalidate --maxwall 400 2>&1); rc=$?
  asserts=$(echo "$out" | grep -A1 "^VIOLATION" | sed -n 's/.*harness=\([A-Za-z0-9_]*\) \(assert\|panic\) \([^ ]*\).*/\1:\3/p' | sort -u | head -6 | tr '\n' ' ')
  echo "SWEEP $id $prop exit=$rc $asserts"
  python3 - "$id" "$rc" "$asserts" <<'PY'
import json,sys
id,rc,asserts=sys.argv[1],int(sys.argv[2]),sys.argv[3].split()
p='seeded/%s/meta.json'%id; m=json.load(open(p))
m['detected_by']={"quick_check_exit":rc,"violations":asserts} if rc==1 else None
m['last_sweep_exit']=rc
json.dump(m,open(p,'w'),indent=1)
PY
done
