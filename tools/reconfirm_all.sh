#!/bin/sh
# usage: tools/reconfirm_all.sh [seed-id ...]
# Re-confirms stored seeded changes against the CURRENT /repo HEAD in a scratch worktree (outside /repo and
# /verif): the patch applies, the demonstration passes without it and fails with it, the unedited suite passes
# with it. Prints one RECONFIRM line per seed and records the HEAD in meta.json on success.
root=$(cd "$(dirname "$0")/.." && pwd)
export GOFLAGS=-mod=mod GOPROXY=off
ids="$@"; [ -z "$ids" ] && ids=$(ls $root/seeded)
wt=/tmp/reconf-$$
git -C /repo worktree add -q --detach $wt HEAD || exit 3
trap 'git -C /repo worktree remove --force '$wt' 2>/dev/null' EXIT
head=$(git -C /repo rev-parse --short HEAD)
for id in $ids; do
  d=$root/seeded/$id
  git -C $wt checkout -q -- . ; git -C $wt clean -fdq
  place=$(head -1 $d/demo_test.go | sed -n 's|.*place in: *\([a-z]*\)/*.*|\1|p')
  cp $d/demo_test.go $wt/$place/zz_demo_test.go
  run_demo() { (cd $wt && unshare -n sh -c "ip link set lo up; go test -vet=off -count=1 -timeout 10m -run 'ZZ|Demo|Mut|Seed' ./$place/ 2>&1"); }
  out0=$(run_demo); rc0=$?
  full=""
  echo "$out0" | grep -q "no tests to run" && { out0=$(cd $wt && unshare -n sh -c "ip link set lo up; go test -vet=off -count=1 -timeout 10m ./$place/ 2>&1"); rc0=$?; full=1; }
  if ! git -C $wt apply $d/patch.diff 2>/dev/null; then echo "RECONFIRM $id PATCH-DOES-NOT-APPLY"; continue; fi
  if [ -n "$full" ]; then out1=$(cd $wt && unshare -n sh -c "ip link set lo up; go test -vet=off -count=1 -timeout 10m ./$place/ 2>&1"); rc1=$?; else out1=$(run_demo); rc1=$?; fi
  rm $wt/$place/zz_demo_test.go
  suite=$(cd $wt && unshare -n sh -c "ip link set lo up; go test -vet=off -count=1 -timeout 25m ./tlcp/ ./dtlcp/ ./pa/ 2>&1"); rcs=$?
  v=BAD; [ $rc0 -eq 0 ] && [ $rc1 -ne 0 ] && [ $rcs -eq 0 ] && v=OK
  echo "RECONFIRM $id $v demo-without-patch=$rc0 demo-with-patch=$rc1 suite-with-patch=$rcs head=$head"
  if [ $v = OK ]; then
    python3 - "$d/meta.json" "$head" <<'PY'
import json,sys
m=json.load(open(sys.argv[1])); m['repo_head_confirmed_at']=sys.argv[2]; json.dump(m,open(sys.argv[1],'w'),indent=1)
PY
  else
    echo "--- without: $(echo "$out0" | tail -3)"; echo "--- with: $(echo "$out1" | tail -3)"; echo "--- suite: $(echo "$suite" | tail -3)"
  fi
done
