#!/usr/bin/env python3
"""usage: tools/applysweep.py <sweep log> ...   — records the SWEEP lines of mutsweep.sh runs in seeded/<id>/meta.json
(the last line per id wins) and rewrites the table of DESIGN.md section 11."""
import json, os, re, sys
root = os.path.dirname(os.path.dirname(os.path.abspath(__file__)))
res = {}
for log in sys.argv[1:]:
    for line in open(log, errors='replace'):
        m = re.match(r'SWEEP (\S+) (\S+) (exit=(\d+)|PATCH-DOES-NOT-APPLY)\s*(.*)', line.strip())
        if not m:
            continue
        sid, prop, _, rc, rest = m.groups()
        res[sid] = (prop, None if rc is None else int(rc), rest.split())
rows = []
for sid in sorted(os.listdir(os.path.join(root, 'seeded'))):
    mp = os.path.join(root, 'seeded', sid, 'meta.json')
    if not os.path.exists(mp):
        continue
    meta = json.load(open(mp))
    if sid in res:
        prop, rc, viol = res[sid]
        meta['last_sweep_exit'] = rc
        meta['detected_by'] = {"quick_check_exit": rc, "violations": viol} if rc == 1 else None
        json.dump(meta, open(mp, 'w'), indent=1)
    notes = ''
    np = os.path.join(root, 'seeded', sid, 'notes.md')
    if os.path.exists(np):
        txt = open(np, errors='replace').read()
        # first meaningful line of the sub-agent's notes
        for l in txt.splitlines():
            l = l.strip(' #*-')
            if len(l) > 25:
                notes = l
                break
    det = meta.get('detected_by')
    if det:
        vs = sorted(set(v.split(':', 1)[1] if ':' in v else v for v in det['violations']))
        hs = sorted(set(v.split(':', 1)[0].replace('VerifHarness_', '') for v in det['violations']))
        how = 'caught: ' + ', '.join(hs[:3]) + ' (' + ', '.join(vs[:2]) + ')'
        if meta.get('first_sweep_exit') == 0:
            how = 'missed at first, ' + how.replace('caught:', 'caught after the check was strengthened:')
    elif meta.get('last_sweep_exit') is None:
        how = 'not swept yet'
    else:
        how = 'MISSED (exit %s)' % meta.get('last_sweep_exit')
    rows.append((sid, meta['property'], notes[:150].replace('|', '/'), how.replace('|', '/')))
tab = ['| seeded change | property | what (from the sub-agent\'s notes) | quick check of that property |', '|---|---|---|---|']
for r in rows:
    tab.append('| `%s` | %s | %s | %s |' % r)
caught = sum(1 for r in rows if r[3].startswith('caught'))
later = sum(1 for r in rows if r[3].startswith('missed at first'))
summary = ('%d confirmed seeded changes: %d caught by the quick check of their property as it stood when the batch was swept '
           '(batches -a to -c were swept again on the final tree after their misses had been closed), %d caught after the check was strengthened '
           '(each verified with tools/mutcheck.sh), %d not caught, %d not swept.') % (
    len(rows), caught, later, sum(1 for r in rows if r[3].startswith('MISSED')), sum(1 for r in rows if r[3].startswith('not swept')))
dp = os.path.join(root, 'DESIGN.md')
d = open(dp).read()
start = d.index('## 11. Seeded changes and which checks catch them')
end = d.index('## 12. False alarms')
intro = '''## 11. Seeded changes and which checks catch them

Each change was written by a fresh sub-agent that was given only the text of one property and its own scratch
worktree (nothing from /verif), and was kept only after `tools/confirm_mut.sh` had confirmed, in another scratch
worktree of the current `/repo` HEAD, that the demonstration passes without the change and fails with it and that
the whole existing suite still passes with it.  Seven batches were produced (`-a` … `-g`; `-f` a small one of twelve for six properties, `-g` eight (five, then three more at other sites) for the properties with the fewest changes, asked for changes that need a long-lived connection, a boundary value or an unusual transport segmentation; from the third on with the
request to prefer the less obvious code paths, both stacks, both roles, configuration-dependent behaviour and
interactions between features; the fourth for the seven properties that had the fewest changes, the fifth for the
other twelve).  After the last `fix:` commit all of
them were confirmed again against the repaired tree (`tools/reconfirm_all.sh`).  Changes whose patch no longer
applied after a `fix:` commit were re-made by hand at the same site and confirmed again; demonstrations that relied
on behaviour a fix removed (the stock client remembering the session of a failed handshake; the one-timeout stall
of every fault-free DTLCP handshake; ChangeCipherSpec+Finished travelling alone when retransmitted; a handshaking
endpoint adopting a higher epoch from an unauthenticated record) were adjusted to show the same defect another way;
every such adjustment is noted in the change's `notes.md`.  Three changes were dropped because a fix had made them
harmless (`C11-a2`, `C04-a1`: both need the cache to alias session objects, which the F5 fix removed; the original
`C16-a1` became harmless once the window test gained its 64-bit guard and was re-made as the equivalent left-edge
slip).  `C05-C05-c2` was written by the agent given C05 but, as its own notes say, breaks the datagram stack's
replay window: it is filed, and swept, under C16.  `tools/mutsweep.sh` applies each patch to a scratch worktree and
runs the quick check of its property there (`VERIF_REPO`); `/repo` is never touched.

SUMMARY

First exposure, i.e. each batch against the checks as they stood when the batch arrived: batch a 29 of 36 caught,
b 22 of 32, c 14 of 24, d 12 of 14, e 18 of 24, f 10 of 12, g 7 of 8 — 112 of 150; the misses were analysed one by one and are listed after
the table with what was added for each.  The rate did not rise from batch to batch because each batch was asked
for less obvious changes than the one before; what the later batches found were mostly obligations that a harness
already exercised but asserted under another property's name, over-constrained pre-states, and situations no
harness produced (a transport reporting EOF with the last bytes, a receiver that had half-closed, an address filter).

TABLE

Checks were strengthened where a sweep showed a miss (each miss was a missing harness, a missing oracle clause, an
over-constrained pre-state, or an obligation asserted under another property's name only — never a loosened check):
record layer before the handshake with two records and lying length fields (C03-a2, C08-a1), CBC decrypt lemma
(C09-a1), spin detection (C09-a2), server-name forms (C02-a1), header authentication lemma (C04-a2, C16-a2),
resumption decision lemma (C10-a1), receive capacity lemma (C15-a2), retransmission lemma in the dtlcp client driver
(C19-a2), C06/C07-prefixed clauses in shared harnesses (C06-a1, C07-a2), fragment-limit lemma (C17-a2); after the
second and third batch: empty session id echo (C01-b2), ALPN on resumption (C01-c2), suite enabled by both sides on
resumption under C01 (C01-c1), resumed-certificate lemma driven through `processServerHello` and the real
`verifySessionCertificates` inside the client driver so that an internal signature change no longer breaks the
harness build (C02-b2), deferred ChangeCipherSpec body (C03-b1, C03-c1), decoder and key-exchange totality counted
under C03 (C03-b2, C03-c2), sequence-number carry lemma from an arbitrary 64-bit pre-state (C04-b1), first bad record
is final after CloseWrite / for a HelloRequest / for a replay (C05-c1, C12-c1), datagram round trip around the CBC
block boundary (C06-c1), evicted identifiers under C10 (C10-b1), close_notify coalesced with the last record (C12-c2),
decoders consume the whole slice (C14-b2), fragment flood under C17 (C17-b2), empty non-nil cookie secret (C18-b2),
duplicate suppression and fragment reordering under C19 (C19-b2, C19-c2); after the fourth batch: peer identity of
a resumed connection with and without verification (C10-d2), the datagram source-address filter that the cookie
binding rests on (C18-d1; this needed a model of `(net.IP).String` on concrete addresses in the engine); after the
fifth batch: the negotiation oracle now works on a copy of the configuration taken before the call — the change
corrupted the caller's suite list in place and the oracle, reading the list afterwards, agreed with it (C01-e2) —,
the record limit on the datagram stack under C06 (C06-e1), a session handed out by a lookup survives later cache
operations (C11-e1), a transport that reports EOF together with the last bytes (C12-e1), a warning-alert flood on
the datagram stack stays fatal (C12-e2), an early ChangeCipherSpec is accepted when retransmitted in turn (C19-e1); after the sixth batch: the Finished
transcript lemma of the drivers is asserted under C04 too (C04-f2: both roles leaving CertificateVerify out of the
transcript agree with each other, not with the standard), exactly one protocol name in the ServerHello's ALPN
extension (C14-f2); after the seventh batch: the one-step lemma on the real `incSeq` (symbolic 64-bit pre-state) is
asserted under C05 as well — a dropped carry repeats sequence numbers, so record 0 is authentic again at position 256
(C05-g1; C04-g1, a carry that skips a byte, was caught by the same lemma under C04).  The same audit on the datagram stack: `C04_record_layout` (symbolic 48-bit `writeSeq`, two
records) now also asserts under C15 that consecutive datagrams carry distinct, consecutive sequence numbers — a sender
whose counter repeats has its next payload dropped by the peer's replay window; validated with a hand-made carry slip
at `dtlcp/conn.go` `writeSeq++` (caught, `C15.record.everyDatagramHasAFreshSequenceNumber`).
Not caught and not catchable by this
technique: `C11-C11-c2` (a read-lock fast path in the session cache that is wrong only under a concurrent eviction:
every sequential history is correct; goroutine schedules are outside the engine, see C13 in section 8).

**Behaviour-preserving refactorings (no alarm where the property holds).**  Four further sub-agents, each given a
worktree and a group of files, produced twelve refactorings that keep every function name and signature and change
bodies only (`/verif/benign/<id>/`: header parsing with `encoding/binary`, if-chains turned into switches, extracted
helpers, merged or split loops, restructured LRU `Put`/`Get`, replay-window and fragment-bitmap arithmetic rewritten,
`writeFlight` scan extracted, cookie loop un-nested, PRF and key-block slicing rewritten, …), each passing the
repository's suite.  `tools/bencheck.sh` ran the quick checks of the properties anchored in the touched files
against each of them: 31 check runs, no VIOLATION line anywhere, 29 exit 0 (`benign/bencheck-run1.log`).  The two
runs that did not exit 0 were the C04 check reporting an inconclusive solver answer in `C04_header_authenticated`
while three heavy jobs shared the machine — unrelated to the refactoring (one of the two patches does not touch
record code); that harness was made about five times cheaper afterwards, unknown answers are now asked a second
time with a longer timeout (section 12), and both runs were repeated: exit 0 (`benign/bencheck-run2.log`).  After
the last harness additions all 31 runs were repeated on the final checks: 31 exit 0 (`benign/bencheck-run3.log`).

'''
d = d[:start] + intro.replace('SUMMARY', summary).replace('TABLE', '\n'.join(tab)) + d[end:]
open(dp, 'w').write(d)
print(summary)
