#!/usr/bin/env python3
"""Regenerates /verif/MANIFEST.json from the table below (claimed checks) — run after editing."""
import json, os
root = os.path.dirname(os.path.dirname(os.path.abspath(__file__)))
ids = [json.loads(l)['id'] for l in open(os.path.join(root, 'properties.jsonl'))]

TECH = "bounded symbolic execution of the real Go code (go/ssa -> SMT-LIB2 QF_UFBV, z3), counterexamples replayed natively"
NOTE_COMMON = ("Trusted: go/ssa lowering, the gosmt interpreter (validated each run against the native build on random concrete traces), z3 for unsat. "
               "Claim holds only within the case-split ranges, buffer sizes and unwinding limits written to the evidence file; ")

claimed = {
 "C02": dict(
   text="Bounded symbolic execution of the client's real ServerKeyExchange processing for both key-exchange families (tlcp and dtlcp): for every ServerKeyExchange body up to the stated length and every certificate list of 0..3 entries with arbitrary key types, acceptance implies that the signature was verified exactly once with the SIGNING certificate's key over client_random || server_random || (uint24 len || encryption certificate | ServerECDHParams) and that the verdict was honoured. Thin so far: the whole-handshake lemmas of DESIGN.md section 6 C02 (certificate chain options, Finished, resumption) are being added.",
   note=NOTE_COMMON + "E8/E10: SM2 verification is a stub with an arbitrary verdict whose arguments are logged; certificates are objects with arbitrary Raw bytes and key types.",
   ref="section 6 C02"),
 "C04": dict(
   text="Bounded symbolic execution of (a) the client's pre-master secret construction (48 bytes = offered version || 46 bytes from Rand, encrypted to the server's ENCRYPTION certificate, ClientKeyExchange framing; ECDHE needs the signed temporary key) and (b) through the C05 stream harness, that record header lengths are consistent with the bytes written. Thin so far: PRF/key-block/record-MAC equivalence lemmas of DESIGN.md section 6 C04 are being added.",
   note=NOTE_COMMON + "E9: SM2 encryption / key agreement are stubs returning arbitrary bytes with logged arguments.",
   ref="section 6 C04"),
 "C05": dict(
   text="Bounded symbolic execution of the real Write -> attacker -> Read path of the stream stack for SM4-GCM and SM4-CBC: 2 genuine application records from the sender's real write path, then an ARBITRARY attacker stream (arbitrary type/version/contents, record lengths case-split around the genuine lengths; GCM up to 3 records, CBC 1 (quick) / 2 (thorough)), then 3-4 Reads with buffers of 1-2 bytes: bytes handed out are a prefix of the genuine plaintext, in order; after the first error every Read fails with no bytes. Plus extractPadding == the TLS 1.0 padding specification for every payload of 0..48 (quick) / 0..300 (thorough) bytes, both stacks.",
   note=NOTE_COMMON + "E5-E7: ideal AEAD, CBC as identity, HMAC as an unforgeable uninterpreted function; timing side channels are outside this technique.",
   ref="section 6 C05"),
 "C09": dict(
   text="Bounded symbolic execution, panic events checked at every index/slice/type-assertion/nil dereference: all 9 (tlcp) + 10 (dtlcp) unmarshal functions on arbitrary byte strings (0..16/24 bytes, hellos 0..50/58), framed strings for the reverse-codec harnesses, every key-exchange processing function of both roles on arbitrary bodies and certificate key types, the DTLCP fragment buffer on hostile offsets/lengths. Thin so far: record-layer progress and memory-bound lemmas of DESIGN.md section 6 C09 are being added.",
   note=NOTE_COMMON + "E8-E10 stubs for public-key primitives and certificates.",
   ref="section 6 C09"),
 "C11": dict(
   text="Bounded symbolic execution of the real lruSessionCache (with the real container/list) of both stacks against a reference LRU written in the harness: capacity 1..3 (quick) / 1..4 (thorough), 4 / 5 operations, each an arbitrary choice of Put(new) / Put(object already stored under another key: the createNewSession aliasing pattern) / Put(nil) / Get(k) / Get(\"\"), keys arbitrary one-byte strings (every equality pattern): size bound, agreement with the reference after every operation, stored master secrets intact. NewLRUSessionCache(n) for every n.",
   note=NOTE_COMMON + "sessions are identified by content, not by pointer; the 'concurrent use is equivalent to some sequential order' clause is not decided (single goroutine; see C13).",
   ref="section 6 C11"),
 "C14": dict(
   text="Bounded symbolic execution of every handshake codec of both stacks (real cryptobyte code included): forward unmarshal(marshal(m)) == m for arbitrary in-range fields with bounded list sizes, every ClientHello extension one at a time and all at once; reverse: arbitrary bytes framed as readHandshake frames them, accept => re-encoding reproduces the input (extension-free forms of the hellos); totality: no panic on arbitrary bytes.",
   note=NOTE_COMMON + "framing precondition of unmarshal (type byte and 24-bit length as readHandshake guarantees); hellos WITH extension blocks are covered in the forward direction and for totality only.",
   ref="section 6 C14"),
 "C16": dict(
   text="Bounded model checking of dtlcp/replay.go by symbolic execution: (a) one replayWindow.check step from an ARBITRARY window state satisfying the representation invariant (covers histories of any length over the full 48-bit sequence space, window size arbitrary in [-4, 2^20]); (b) 3 (quick) / 4 (thorough) arbitrary checks from the initial state against a ghost 'seen' set. At-most-once, completeness inside max(32,min(size,64)), state frame on reject. This is the right level because the window is pure integer/bit arithmetic: the solver decides it for every value.",
   note=NOTE_COMMON + "the Conn-level path (authentication before the window is consulted, ReadFrom vs Read) is not yet covered.",
   ref="section 6 C16"),
 "C17": dict(
   text="Bounded symbolic execution of the real fragmentBuffer against a reference reassembler: message length 1..5 (quick) / 1..9 (thorough), up to 3 fragments with every offset and length 0..len+1 (case split) and symbolic contents: refuses exactly the out-of-range fragments, complete() iff every byte is covered, assembled() equals the original whatever the order/overlap/duplication; hostile 24-bit offsets/lengths: no panic. Thin so far: split/reassembly through writeHandshakeRecord/readHandshake is being added.",
   note=NOTE_COMMON + "fragment offsets and lengths are enumerated by case split (contents symbolic).",
   ref="section 6 C17"),
 "C20": dict(
   text="Bounded symbolic execution of the real pa.detect / ReadFirstHeader / ProtocolDetectConn.Read (io.ReadFull, tlcp.Server, tls.Server executed from source): first bytes arbitrary, stream length 0..7/9, every segmentation of the transport reads, the three configurations: routed to TLCP iff major version byte 1 and TLCP config present, to TLS iff 3 and TLS config present, unsupported-protocol error otherwise, configuration error when the config is missing, short stream => error; the peeked header is replayed ahead of the live stream for 4/5 reads with every buffer size 0..6, nothing lost or duplicated.",
   note=NOTE_COMMON + "a full handshake through the adapter is outside (covered by the stacks' own properties once the byte stream is shown intact).",
   ref="section 6 C20"),
}

na_reason = {
 "C13": "quantified over goroutine schedules and the Go memory model; the engine executes one sequential goroutine and has no scheduler/happens-before model (DESIGN.md §8)",
}

checks = []
for pid in ids:
    if pid in claimed:
        c = claimed[pid]
        checks.append({
            "property_id": pid,
            "quick_cmd": f"/verif/bin/verifchk check {pid} --tier quick",
            "thorough_cmd": f"/verif/bin/verifchk check {pid} --tier thorough",
            "evidence_file": f"/verif/evidence/{pid}.json",
            "replay_cmd_template": "/verif/bin/verifchk replay {path}",
            "engine": "gosmt",
            "level_claimed": {"category": "model_checking", "text": c["text"], "design_ref": c["ref"]},
            "level_note": c["note"],
            "technique": TECH,
        })
na = [{"property_id": p, "reason": na_reason.get(p, "check not built yet (work in progress; see DESIGN.md §6 for the plan)")} for p in ids if p not in claimed]
m = {
 "version": 1,
 "setup_cmd": "cd /verif/engine && GOFLAGS=-mod=mod GOPROXY=off go build -o /verif/bin/verifchk ./cmd/verifchk",
 "hooks": {"guard": "verif",
           "enable": "no hook commits: harness files (/verif/harness/<group>/<pkg>/*.go, //go:build verif) are injected into the packages through go/packages Overlay (symbolic run) and go test -overlay (native replay) with -tags verif",
           "baseline_off_cmd": "cd /repo && GOFLAGS=-mod=mod GOPROXY=off go test -vet=off -count=1 -timeout 25m ./...",
           "source_commits": [], "add_only": True},
 "engines": [{"name": "gosmt", "path": "/verif/engine", "serves_properties": sorted(claimed), "kind_free_text": "own symbolic executor for go/ssa: hash-consed bit-vector terms, fork by re-execution, z3 over a pipe (SMT-LIB2, QF_UFBV), native replay of models via go test -overlay"}],
 "checks": checks,
 "not_applicable": na,
 "notes": "Exit codes of every check: 0 = all obligations discharged within the registered bounds; 1 = replayed, unlisted violation (VIOLATION line); 2 = machinery failure (CHECK-BROKEN / INCONCLUSIVE), never a verdict.",
}
json.dump(m, open(os.path.join(root, 'MANIFEST.json'), 'w'), indent=1)
print("claimed:", sorted(claimed), "n/a:", len(na))
