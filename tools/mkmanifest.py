#!/usr/bin/env python3
"""Regenerates /verif/MANIFEST.json from the table below (claimed checks) — run after editing."""
import json, os
root = os.path.dirname(os.path.dirname(os.path.abspath(__file__)))
ids = [json.loads(l)['id'] for l in open(os.path.join(root, 'properties.jsonl'))]

TECH = "bounded symbolic execution of the real Go code (go/ssa -> SMT-LIB2 QF_UFBV, z3), counterexamples replayed natively"
NOTE_COMMON = ("Trusted: go/ssa lowering, the gosmt interpreter (validated each run against the native build on random concrete traces), z3 for unsat. "
               "Claim holds only within the case-split ranges, buffer sizes and unwinding limits written to the evidence file; ")

claimed = {
 "C16": dict(
   text="Bounded model checking of dtlcp/replay.go by symbolic execution: (a) one replayWindow.check step from an ARBITRARY window state satisfying the representation invariant (covers histories of any length over the full 48-bit sequence space, window size arbitrary in [-4, 2^20]); (b) 3 (quick) / 4 (thorough) arbitrary checks from the initial state against a ghost 'seen' set. At-most-once, completeness inside max(32,min(size,64)), state frame on reject. This is the right level because the window is pure integer/bit arithmetic: the solver decides it for every value.",
   note=NOTE_COMMON + "the Conn-level path (authentication before the window is consulted, ReadFrom vs Read) is covered only as far as the harnesses listed in DESIGN.md §6 C16.",
   ref="§6 C16"),
}

na_reason = {
 "C13": "quantified over goroutine schedules and the Go memory model; the engine executes one sequential goroutine and has no scheduler/happens-before model (DESIGN.md §8)",
}

checks = []
for pid in ids:
    if pid in claimed:
        c = claimed[pid]
        checks.append({
            "property_id": pid,
            "quick_cmd": f"/verif/bin/verifchk check {pid} --tier quick",
            "thorough_cmd": f"/verif/bin/verifchk check {pid} --tier thorough",
            "evidence_file": f"/verif/evidence/{pid}.json",
            "replay_cmd_template": "/verif/bin/verifchk replay {path}",
            "engine": "gosmt",
            "level_claimed": {"category": "model_checking", "text": c["text"], "design_ref": c["ref"]},
            "level_note": c["note"],
            "technique": TECH,
        })
na = [{"property_id": p, "reason": na_reason.get(p, "check not built yet (work in progress; see DESIGN.md §6 for the plan)")} for p in ids if p not in claimed]
m = {
 "version": 1,
 "setup_cmd": "cd /verif/engine && GOFLAGS=-mod=mod GOPROXY=off go build -o /verif/bin/verifchk ./cmd/verifchk",
 "hooks": {"guard": "verif",
           "enable": "no hook commits: harness files (/verif/harness/<group>/<pkg>/*.go, //go:build verif) are injected into the packages through go/packages Overlay (symbolic run) and go test -overlay (native replay) with -tags verif",
           "baseline_off_cmd": "cd /repo && GOFLAGS=-mod=mod GOPROXY=off go test -vet=off -count=1 -timeout 25m ./...",
           "source_commits": [], "add_only": True},
 "engines": [{"name": "gosmt", "path": "/verif/engine", "serves_properties": sorted(claimed), "kind_free_text": "own symbolic executor for go/ssa: hash-consed bit-vector terms, fork by re-execution, z3 over a pipe (SMT-LIB2, QF_UFBV), native replay of models via go test -overlay"}],
 "checks": checks,
 "not_applicable": na,
 "notes": "Exit codes of every check: 0 = all obligations discharged within the registered bounds; 1 = replayed, unlisted violation (VIOLATION line); 2 = machinery failure (CHECK-BROKEN / INCONCLUSIVE), never a verdict.",
}
json.dump(m, open(os.path.join(root, 'MANIFEST.json'), 'w'), indent=1)
print("claimed:", sorted(claimed), "n/a:", len(na))
