#!/usr/bin/env python3
"""Regenerates /verif/MANIFEST.json from the table below (claimed checks) — run after editing."""
import json, os
root = os.path.dirname(os.path.dirname(os.path.abspath(__file__)))
ids = [json.loads(l)['id'] for l in open(os.path.join(root, 'properties.jsonl'))]

TECH = "bounded symbolic execution of the real Go code (go/ssa -> SMT-LIB2 QF_UFBV, z3), counterexamples replayed natively"
NOTE_COMMON = ("Trusted: go/ssa lowering, the gosmt interpreter (validated each run against the native build on random concrete traces), z3 for unsat. "
               "Claim holds only within the case-split ranges, buffer sizes and unwinding limits written to the evidence file; ")

claimed = {
 "C01": dict(
   text="Bounded symbolic execution of the negotiation kernel of BOTH roles composed in one run, on the real makeClientHello, supportedVersionsFromMax/mutualVersion, processClientHello (ALPN, certificate selection, key kinds), server pickCipherSuite, pickProtocolVersion and processServerHello of both stacks: client and server cipher-suite lists are nil or 1..2 (quick) / 1..3 (thorough) ARBITRARY 16-bit ids (all equality patterns, duplicates, unknown ids), 0..2 client key pairs, server keys able / unable to sign / decrypt, 8 representative ALPN list pairs: both sides continue exactly when a suite exists that both enabled and have keys for and ALPN is compatible, and then hold the same suite = first in the documented priority order, same version, same ALPN. Plus: every Config field equals the corresponding field of Clone(), and a required client certificate is enforced (C07 certs harness).",
   note=NOTE_COMMON + "outside: that both Handshake() calls return over a real transport and the end-to-end echo with real ciphers (needs two concurrent endpoints and real crypto; record path is C04-C06), peer-certificate list equality (C02/C07 x509 harnesses cover what each side installs); the hello codecs are assumed to be the identity on negotiated fields (C14).",
   ref="section 6 C01"),
 "C02": dict(
   text="Bounded symbolic execution of the client's real code: (a) the whole clientHandshake state machine under cut M against a symbolic peer that chooses one of ten message kinds at every read (full and resumed, 0..2 client key pairs, arbitrary cached session): completion implies the certificate check ran with a positive verdict (full: verifyServerCertificate; resumed: the session's certificates under the current configuration), the ServerKeyExchange signature was verified, the accepted Finished equals all 12 bytes of PRF(master, 'server finished', transcript) with master derived from this handshake's pre-master secret or the cached master secret, and every failing path leaves handshakeStatus 0; (b) the real verifyServerCertificate / verifySessionCertificates over an X.509 stub: both certificates verified with configured roots, time and server name, rest as intermediates, both verdicts honoured, fewer than 2 certificates rejected; (c) the real processServerKeyExchange of both key-exchange families: signature checked with the SIGNING certificate's key over client_random || server_random || parameters. All three on both stacks (the dtlcp driver enters after the cookie phase, which the hsMd group covers).",
   note=NOTE_COMMON + "E8-E11 stubs: signature / X.509 verdicts are arbitrary and their arguments logged; the correctness of smx509 and SM2 themselves is trusted; the enumerated impostor catalogue with real certificates is subsumed by the arbitrary verdicts.",
   ref="section 6 C02"),
 "C03": dict(
   text="Bounded symbolic execution of the real handshake state machines (tlcp client and server, dtlcp client; cut M) against a symbolic peer: on every completing path the bytes fed to the Finished transcript are exactly the handshake messages in wire order (sent ones as marshalled, received ones as delivered) up to the peer's Finished, the accepted Finished equals all 12 bytes of the PRF output over that transcript, ChangeCipherSpec immediately precedes the peer's Finished, exactly one ChangeCipherSpec is sent; the record layer accepts a ChangeCipherSpec only when expected, with body 01 and no partial handshake message pending (real readRecordOrCCS on an arbitrary stream). No panic on any explored path. Together with collision-free hash/PRF (assumed) equal Finished values imply identical transcripts, hence identical views.",
   note=NOTE_COMMON + "E4/E5 idealisation (equal PRF outputs => equal transcripts) is assumed, not decided; the dtlcp server driver serves C07/C08/C10 only in the quick tier.",
   ref="section 6 C03"),
 "C04": dict(
   text="Bounded symbolic execution, equivalence against a reference written from GB/T 38636 6.5 with HMAC-SM3/SM3 as shared uninterpreted functions, both stacks: master secret = PRF(pre, 'master secret', client||server)[:48]; key block = PRF(master, 'key expansion', server||client) cut as client MAC, server MAC, client key, server key, client IV, server IV for the four suites; Finished = PRF(master, label, SM3(transcript))[:12]; establishKeys of both roles installs the peer's write keys for reading (CBC reader gets a decrypter); the client's pre-master secret = offered version || 46 random bytes encrypted to the ENCRYPTION certificate; in the handshake drivers the Finished PRF is keyed with the master secret derived in this handshake (or the cached one on resumption) and one key expansion happens per connection; record layout lemma on both stacks: MAC input = seq(8) || type || version || length || plaintext, GCM nonce = IV(4) || seq(8) = explicit nonce on the wire, additional data = seq || type || version || plaintext length, CBC padding bytes = padLen-1 and whole blocks, sequence +1 per record (dtlcp: the 8 bytes are epoch || 48-bit sequence as in the header); a genuine record with any single header byte changed (type, version, epoch, sequence, length) is never delivered.",
   note=NOTE_COMMON + "E4/E5/E9 idealisations; gmsm's SM2/SM3/SM4, crypto/hmac, crypto/cipher are trusted; nonce uniqueness rests on the +1 sequence step (incSeq wrap panics after 2^64 records; dtlcp writeSeq has no guard at 2^48, outside the bound).",
   ref="section 6 C04"),
 "C05": dict(
   text="Bounded symbolic execution of the real Write -> attacker -> Read path of the stream stack for SM4-GCM and SM4-CBC: 2 genuine application records from the sender's real write path, then an ARBITRARY attacker stream (arbitrary type/version/contents, record lengths case-split around the genuine lengths; GCM up to 3 records, CBC 1 (quick) / 2 (thorough)), then 3-4 Reads with buffers of 1-2 bytes: bytes handed out are a prefix of the genuine plaintext, in order; after the first error every Read fails with no bytes. Plus extractPadding == the TLS 1.0 padding specification for every payload of 0..48 (quick) / 0..300 (thorough) bytes, both stacks.",
   note=NOTE_COMMON + "E5-E7: ideal AEAD, CBC as identity, HMAC as an unforgeable uninterpreted function; timing side channels are outside this technique.",
   ref="section 6 C05"),
 "C06": dict(
   text="Bounded symbolic execution of the real stream stack: (a) two post-handshake Conns joined by a byte queue (GCM and CBC, ideal crypto): 1..2 (3) writes of 0..2 (4) arbitrary bytes, optional Close, transport delivering whole or segmented (1 byte / half / all for the first 4 (6) transport reads), reads with buffers 1..2 (3): every Write reports its full length, bytes read equal bytes written in order, EOF only after the last byte; (b) the FIRST record writeRecordLocked emits from an ARBITRARY pre-state (bytesSent, packetsSent arbitrary below 2^62, dynamic sizing on/off, none/GCM/CBC, payload length 1..70000 symbolic): plaintext <= 16384, ciphertext <= 16384+2048, header length matches, maxPayloadSizeForWrite in [1,16384]; being inductive over the pre-state this covers every record of every write.",
   note=NOTE_COMMON + "E5-E7; contents checked on small writes only (sizes by the inductive lemma); counters assumed below 2^62.",
   ref="section 6 C06"),
 "C07": dict(
   text="Bounded symbolic execution of the server's real code: (a) the whole serverHandshake state machine (both stacks, cut M) against a symbolic client for the six policies, ECC/ECDHE, arbitrary cached session: CertificateRequest sent iff policy > NoClientCert or ECDHE; a non-empty peer-certificate list implies CertificateVerify was demanded and verified with certificate 0's key over the transcript up to and including ClientKeyExchange; verifiedChains set only after chain verification; a session is resumed only if the current policy would have allowed it and its certificates are re-verified; (b) the real processCertsFromClient of both stacks over an X.509 stub: required => present, ECDHE => two certificates, verification with ClientCAs, configured time and the right key usages, verdicts honoured.",
   note=NOTE_COMMON + "E8, E10, E11 stubs with arbitrary verdicts.",
   ref="section 6 C07"),
 "C08": dict(
   text="Bounded symbolic execution of the real handshake state machines (client and server, both stacks, cut M; on the datagram stack a retransmitted ClientHello and the cookie round trip are outside the message sequence) against a peer that chooses one of ten message kinds (or an error) at every read, ECC and ECDHE, full and resumed, sequences up to 12 reads: completion implies the sequence of kinds consumed is exactly the legal one (client: SH, Cert, SKX, [CertReq], SHD, CCS, Fin | SH, CCS, Fin; server: CH, [Cert iff requested], CKE, [CertVerify iff certificate sent], CCS, Fin | CH, CCS, Fin); plus the real record layer before completion: application data refused, ChangeCipherSpec only when expected, empty handshake records refused, at most 16 consecutive non-advancing records.",
   note=NOTE_COMMON + "signature / Finished / X.509 verdicts are arbitrary so that a deviating peer 'keeps its keys and transcript consistent'.",
   ref="section 6 C08"),
 "C09": dict(
   text="Bounded symbolic execution with every index / slice bound / type assertion / nil dereference / division as a checked panic event: all 9+10 unmarshal functions on arbitrary bytes (0..16/24, hellos 0..50/58 bytes), framed strings, every key-exchange processing function of both roles on arbitrary bodies and certificate key types, fragment buffer on hostile 24-bit offsets, the record layer on arbitrary streams (every accepted record consumes input, 17th non-advancing record is refused), post-handshake handshake records do not accumulate (both stacks), floods of empty application-data records, of warning alerts and of one-byte fragments with fresh message sequence numbers are cut off (pending reassembly buffers <= 256), a malformed datagram never panics an established connection; loops that are still running at the unwinding bound on finite input are reported as non-progress violations (spin); no panic on any path of the drivers, x509 and stream harnesses.",
   note=NOTE_COMMON + "E1, E5-E10.",
   ref="section 6 C09"),
 "C10": dict(
   text="Bounded symbolic execution of the real handshake state machines (client and server, both stacks, cut M) with an arbitrary session cache content (E11), plus the server's resumption decision (real checkForResumption, both stacks) for an arbitrary hello / configuration / cached session, plus the honest DTLCP resumption flight (ServerHello, ChangeCipherSpec, Finished in one datagram) being readable by the client: client resumes iff a session was offered and the ServerHello echoes its id, then version and suite match the session, the cached master secret keys both Finished values, the recorded peer identity is restored (after re-verification), exactly one key expansion with this connection's randoms happens; otherwise a full handshake with no dependence on the stale session; new sessions are stored under both keys with a private 48-byte master secret only after the peer's Finished verified; a failed handshake drops the offered session under both keys and caches nothing. Server: resumes only with a cached session of the same version whose suite the client still offers and the configuration still enables, echoes the id, otherwise full handshake with a 32-byte id drawn from Rand; failed handshakes cache nothing.",
   note=NOTE_COMMON + "histories are covered by the arbitrary cache content rather than by enumerating connection sequences.",
   ref="section 6 C10"),
 "C11": dict(
   text="Bounded symbolic execution of the real lruSessionCache (with the real container/list) of both stacks against a reference LRU written in the harness: capacity 1..3 (quick) / 1..4 (thorough), 4 / 5 operations, each an arbitrary choice of Put(new) / Put(object already stored under another key: the createNewSession aliasing pattern) / Put(nil) / Get(k) / Get(\"\"), keys arbitrary one-byte strings (every equality pattern): size bound, agreement with the reference after every operation, stored master secrets intact. NewLRUSessionCache(n) for every n.",
   note=NOTE_COMMON + "sessions are identified by content, not by pointer; the 'concurrent use is equivalent to some sequential order' clause is not decided (single goroutine; see C13).",
   ref="section 6 C11"),
 "C12": dict(
   text="Bounded symbolic execution of the real stream stack with ideal crypto: transport end at EVERY byte offset of a stream of 1..2 data records and an optional close_notify: io.EOF only on a record boundary or after close_notify and only after every earlier byte was delivered, io.ErrUnexpectedEOF inside a record; after EOF later Reads keep failing; Close then Close => net.ErrClosed, Write after Close fails; before the handshake completes application data is refused with a latched error; every failing path of the handshake drivers leaves the connection incomplete; call sequences of 3/4 arbitrary Read / Write (0 or 1 byte) / CloseWrite / Close with a genuine and an unauthentic record incoming: Close, CloseWrite, read errors and sent fatal alerts stay reported; Handshake runs the handshake function once and keeps returning its error (both stacks).",
   note=NOTE_COMMON + "cancellation of the handshake context (goroutine + channels) is outside the technique; Write after a RECEIVED fatal alert is not required to fail (as in crypto/tls).",
   ref="section 6 C12"),
 "C14": dict(
   text="Bounded symbolic execution of every handshake codec of both stacks (real cryptobyte code included): forward unmarshal(marshal(m)) == m for arbitrary in-range fields with bounded list sizes, every ClientHello extension one at a time and all at once; reverse: arbitrary bytes framed as readHandshake frames them, accept => re-encoding reproduces the input (extension-free forms of the hellos); one arbitrary byte appended inside each known ClientHello extension is rejected; totality: no panic on arbitrary bytes.",
   note=NOTE_COMMON + "framing precondition of unmarshal (type byte and 24-bit length as readHandshake guarantees); hellos WITH extension blocks are covered in the forward direction and for totality only.",
   ref="section 6 C14"),
 "C15": dict(
   text="Bounded symbolic execution of the real DTLCP write path (maxPayloadSizeForWrite, writeRecordLocked, encrypt, writeHandshakeRecord, write/flush): PMTU arbitrary in {0 = default 1400} u [96, 20000], payload length arbitrary (symbolic) in 1..maxPayload, cipher none / GCM / CBC: exactly one datagram, at most PMTU bytes, at most 16384 bytes of plaintext, header length consistent; Write of a longer buffer (PMTU 96..98) is split into datagrams that each fit, in order, with consecutive sequence numbers; a buffered handshake flight of 2..3 records: every datagram fits the PMTU (K3, fixed); the buffer readDatagram offers holds the largest datagram the write path can emit (PMTU up to 40000).",
   note=NOTE_COMMON + "length-only cipher stubs (contents irrelevant); PMTU below 96 is outside (a CBC record cannot carry one byte below 77); the receive side (ReadFrom returns exactly the payload) is covered by the C16 connection harness for 1-byte payloads only.",
   ref="section 6 C15"),
 "C16": dict(
   text="Bounded symbolic execution: (a) one replayWindow.check step from an ARBITRARY window state satisfying the representation invariant (histories of any length, full 48-bit space, size in [-4, 2^20]) and 3/4 arbitrary checks from the initial state against a ghost 'seen' set: at most once, completeness inside max(32,min(size,64)), frame on reject; (b) an established DTLCP connection (epoch 1, ideal AEAD / CBC + unforgeable MAC): 2 genuine records from the real write path, then up to 3 (GCM) / 2 (CBC) deliveries, each a genuine datagram (any order, duplicates) or an ARBITRARY forgery with attacker-chosen epoch, through ReadFrom and through Read: only genuine payloads, each at most once, every genuine record that arrived is delivered the first time whatever forgeries preceded it; a malformed datagram (any version, lying length) neither panics nor blocks the genuine record behind it; a genuine datagram with one header byte changed is not delivered and does not move the read epoch.",
   note=NOTE_COMMON + "E5-E7; under E7 (CBC = identity) a datagram differing from a genuine one only in the explicit IV counts as that genuine record; quick tier: at most one forgery per CBC run; 1-byte payloads.",
   ref="section 6 C16"),
 "C17": dict(
   text="Bounded symbolic execution of the real DTLCP fragmentation code: fragmentBuffer against a reference reassembler (message 1..5/9 bytes, up to 3 fragments with every offset/length 0..len+1, symbolic contents; hostile 24-bit offsets); writeHandshakeRecord with PMTU 26..34/40 and body 0..12/20 bytes: fragments keep type, total length and message sequence, are contiguous from 0, cover the body exactly, fit the PMTU, transcript gets the unfragmented encoding; readHandshake fed the real sender's fragments in EVERY order with an optional duplicate: returns exactly the unfragmented encoding (also to the transcript) and releases its pending buffer; hostile streams: announced length above 64 KiB refused whatever the fragment size, pending buffers bounded, no panic.",
   note=NOTE_COMMON + "'same handshake result whatever PMTU either side uses' follows by composition with the transcript lemmas (C03) and is not run end to end.",
   ref="section 6 C17"),
 "C18": dict(
   text="Bounded symbolic execution with HMAC-SM3 as an uninterpreted function: marshalForCookie is injective on (version, random, session id of length 0/1/32, 0..2 suites, 1..2 compression methods); the cookie is HMAC(secret, address, parameters) with the address length-prefixed, so different (address, parameters) pairs authenticate different byte strings; verifyCookie accepts exactly the 32-byte value (candidates of length 0..33); effectiveCookieSecret = configured secret or 32 bytes drawn once per connection from Rand; the REAL serverHandshake cookie loop (cut M) against up to 3 arbitrary ClientHellos with no / arbitrary (1,31,32,33 bytes) / correct / stale (issued for an earlier hello) cookie: before a hello whose cookie is the value for its own fields nothing but HelloVerifyRequests (never larger than the request) is written, no certificate callback runs, and the server does not proceed.",
   note=NOTE_COMMON + "E5; the rest of the handshake after the cookie phase is a stub that records that the server committed; private-key operations happen only after that point (doFullHandshake), which is checked by reading order, not by this harness.",
   ref="section 6 C18"),
 "C19": dict(
   text="Bounded symbolic execution of per-endpoint lemmas the DTLS robustness argument rests on: RetransmitTimer (initial/max arbitrary up to 2^40 ns, 5/7 arbitrary operations): back-off doubles up to max and re-arms, reset restores the initial value, defaults 1 s / 60 s; the REAL client cookie phase against a server that answers every flight at once: the client never waits for input while it owes a flight (no timeout can expire without a fault); in the dtlcp client driver a timeout while waiting for the server's last flight of a full handshake makes the client resend its own last flight byte for byte as the next datagram; before completion the record layer never hands out application data; an overtaking ChangeCipherSpec+Finished datagram must not be fatal (fails: known finding F11).",
   note=NOTE_COMMON + "NOT decided: that both endpoints complete within the retransmission schedule under every pattern of up to k lost / duplicated / reordered datagrams (a liveness property of two concurrent endpoints, timers and a network; the engine runs one sequential endpoint).",
   ref="section 6 C19"),
 "C20": dict(
   text="Bounded symbolic execution of the real pa.detect / ReadFirstHeader / ProtocolDetectConn.Read (io.ReadFull, tlcp.Server, tls.Server executed from source): first bytes arbitrary, stream length 0..7/9, every segmentation of the transport reads, the three configurations: routed to TLCP iff major version byte 1 and TLCP config present, to TLS iff 3 and TLS config present, unsupported-protocol error otherwise, configuration error when the config is missing, short stream => error; the peeked header is replayed ahead of the live stream for 4/5 reads with every buffer size 0..6, nothing lost or duplicated.",
   note=NOTE_COMMON + "a full handshake through the adapter is outside (covered by the stacks' own properties once the byte stream is shown intact).",
   ref="section 6 C20"),
}

na_reason = {
 "C13": "quantified over goroutine schedules and the Go memory model; the engine executes one sequential goroutine and has no scheduler/happens-before model (DESIGN.md §8)",
}

checks = []
for pid in ids:
    if pid in claimed:
        c = claimed[pid]
        checks.append({
            "property_id": pid,
            "quick_cmd": f"/verif/bin/verifchk check {pid} --tier quick",
            "thorough_cmd": f"/verif/bin/verifchk check {pid} --tier thorough",
            "evidence_file": f"/verif/evidence/{pid}.json",
            "replay_cmd_template": "/verif/bin/verifchk replay {path}",
            "engine": "gosmt",
            "level_claimed": {"category": "model_checking", "text": c["text"], "design_ref": c["ref"]},
            "level_note": c["note"],
            "technique": TECH,
        })
na = [{"property_id": p, "reason": na_reason.get(p, "check not built yet (work in progress; see DESIGN.md §6 for the plan)")} for p in ids if p not in claimed]
m = {
 "version": 1,
 "setup_cmd": "cd /verif/engine && GOFLAGS=-mod=mod GOPROXY=off go build -o /verif/bin/verifchk ./cmd/verifchk",
 "hooks": {"guard": "verif",
           "enable": "no hook commits: harness files (/verif/harness/<group>/<pkg>/*.go, //go:build verif) are injected into the packages through go/packages Overlay (symbolic run) and go test -overlay (native replay) with -tags verif",
           "baseline_off_cmd": "cd /repo && GOFLAGS=-mod=mod GOPROXY=off go test -vet=off -count=1 -timeout 25m ./...",
           "source_commits": [], "add_only": True},
 "engines": [{"name": "gosmt", "path": "/verif/engine", "serves_properties": sorted(claimed), "kind_free_text": "own symbolic executor for go/ssa: hash-consed bit-vector terms, fork by re-execution, z3 over a pipe (SMT-LIB2, QF_UFBV), native replay of models via go test -overlay"}],
 "checks": checks,
 "not_applicable": na,
 "notes": "Exit codes of every check: 0 = all obligations discharged within the registered bounds; 1 = replayed, unlisted violation (VIOLATION line); 2 = machinery failure (CHECK-BROKEN / INCONCLUSIVE), never a verdict.",
}
json.dump(m, open(os.path.join(root, 'MANIFEST.json'), 'w'), indent=1)
print("claimed:", sorted(claimed), "n/a:", len(na))
