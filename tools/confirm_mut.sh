#!/bin/sh
# usage: tools/confirm_mut.sh <mutdir> <seed-id> <property> [patchfile]
# Confirms a seeded mutation in a scratch worktree of /repo HEAD (outside /repo and /verif):
#   demo passes without the patch, fails with it, and the full existing suite passes with it.
# On success stores it under /verif/seeded/<seed-id>/. The worktree is removed afterwards.
mutdir="$1"; id="$2"; prop="$3"; patch="${4:-$mutdir/patch.diff}"
wt=/tmp/scr-$id
export GOFLAGS=-mod=mod GOPROXY=off
git -C /repo worktree remove --force $wt 2>/dev/null
git -C /repo worktree add -q --detach $wt HEAD || exit 3
trap 'git -C /repo worktree remove --force '$wt' 2>/dev/null' EXIT
place=$(head -1 $mutdir/demo_test.go | sed -n 's|.*place in: *\([a-z]*\)/*.*|\1|p')
[ -z "$place" ] && { echo "RESULT $id cannot find placement"; exit 3; }
cp $mutdir/demo_test.go $wt/$place/zz_demo_test.go
run_demo() { (cd $wt && unshare -n sh -c "ip link set lo up; go test -vet=off -count=1 -timeout 10m -run 'ZZ|Demo|Mut|Seed' ./$place/ 2>&1"); }
out0=$(run_demo); rc0=$?
echo "$out0" | grep -q "no tests to run" && { out0=$(cd $wt && unshare -n sh -c "ip link set lo up; go test -vet=off -count=1 -timeout 10m ./$place/ 2>&1"); rc0=$?; full=1; }
if ! git -C $wt apply "$patch"; then echo "RESULT $id PATCH-DOES-NOT-APPLY"; exit 3; fi
if [ -n "$full" ]; then out1=$(cd $wt && unshare -n sh -c "ip link set lo up; go test -vet=off -count=1 -timeout 10m ./$place/ 2>&1"); rc1=$?; else out1=$(run_demo); rc1=$?; fi
rm $wt/$place/zz_demo_test.go
suite=$(cd $wt && unshare -n sh -c "ip link set lo up; go test -vet=off -count=1 -timeout 25m ./tlcp/ ./dtlcp/ ./pa/ 2>&1"); rcs=$?
echo "RESULT $id demo-without-patch=$rc0 demo-with-patch=$rc1 suite-with-patch=$rcs"
if [ $rc0 -eq 0 ] && [ $rc1 -ne 0 ] && [ $rcs -eq 0 ]; then
  d=/verif/seeded/$id; mkdir -p $d
  cp "$patch" $d/patch.diff; cp $mutdir/demo_test.go $d/demo_test.go; cp $mutdir/notes.md $d/notes.md 2>/dev/null
  head=$(git -C /repo rev-parse --short HEAD)
  python3 - "$d" "$id" "$prop" "$head" "$place" <<'PY'
import json,sys,os
d,id,prop,head,place=sys.argv[1:6]
notes=open(os.path.join(d,'notes.md')).read() if os.path.exists(os.path.join(d,'notes.md')) else ''
meta={"id":id,"property":prop,"repo_head_confirmed_at":head,"demo_package":place,
 "confirmed":{"demo_passes_without_patch":True,"demo_fails_with_patch":True,"existing_suite_passes_with_patch":True,
   "how":"tools/confirm_mut.sh: scratch git worktree of /repo HEAD under /tmp, go test in a private network namespace (unshare -n), worktree removed afterwards"},
 "needs_to_manifest":"see notes.md (written by the independent sub-agent that produced the change)",
 "detected_by":None}
json.dump(meta,open(os.path.join(d,'meta.json'),'w'),indent=1)
PY
  echo "STORED $d"
else
  echo "--- demo without patch (rc=$rc0):"; echo "$out0" | tail -5
  echo "--- demo with patch (rc=$rc1):"; echo "$out1" | tail -5
  echo "--- suite (rc=$rcs):"; echo "$suite" | tail -5
fi
