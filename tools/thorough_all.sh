#!/bin/sh
# usage: tools/thorough_all.sh [maxwall-seconds] [property ...]
# Runs the thorough tier of the listed properties (default: all claimed) one after the other and prints one
# THOROUGH line per property with exit code and wall time. Evidence files are not touched (--noevidence).
root=$(cd "$(dirname "$0")/.." && pwd)
cd "$root"
export VERIF_ROOT="$root"
[ -x bin/verifchk ] || (cd engine && GOFLAGS=-mod=mod GOPROXY=off go build -o "$root/bin/verifchk" ./cmd/verifchk) || exit 3
mw="${1:-5400}"; shift
props="$@"; [ -z "$props" ] && props="C06 C12 C02 C04 C05 C07 C10 C03 C08 C16 C01 C09 C14 C11 C15 C17 C18 C19 C20"
for p in $props; do
  t0=$(date +%s)
  out=$(timeout $((mw+600)) ./bin/verifchk check $p --tier thorough --noevidence --maxwall $mw 2>&1); rc=$?
  t1=$(date +%s)
  echo "THOROUGH $p exit=$rc wall=$((t1-t0))s $(echo "$out" | grep '^property=' | tail -1)"
  echo "$out" | grep -E "^(VIOLATION|CHECK-BROKEN|INCONCLUSIVE|KNOWN-FINDING)" | cut -c1-300 | head -8
done
