#!/bin/sh
# usage: tools/bencheck.sh <benign-id> <property> [<property> ...]
# Applies a behaviour-preserving refactoring (benign/<id>/patch.diff) to a scratch worktree of /repo HEAD and runs
# the quick checks of the listed properties against it: every one must exit 0 (no alarm on code where the
# property holds). Prints one BENIGN line per property.
root=$(cd "$(dirname "$0")/.." && pwd)
cd "$root"; export VERIF_ROOT="$root"
id="$1"; shift
wt=/tmp/benrepo-$$
git -C /repo worktree add -q --detach $wt HEAD || exit 3
trap 'git -C /repo worktree remove --force '$wt' 2>/dev/null' EXIT
git -C $wt apply "$root/benign/$id/patch.diff" || { echo "BENIGN $id PATCH-DOES-NOT-APPLY"; exit 3; }
for p in "$@"; do
  out=$(VERIF_REPO=$wt timeout 1800 ./bin/verifchk check $p --noevidence --maxwall 1500 2>&1); rc=$?
  echo "BENIGN $id $p exit=$rc $(echo "$out" | grep -E '^(VIOLATION|CHECK-BROKEN|INCONCLUSIVE)' | head -3 | cut -c1-220 | tr '\n' '|')"
done
