//go:build verif

package tlcp

//verif:twin dtlcp

import (
	"crypto"
	"github.com/emmansun/gmsm/ecdh"
	"crypto/ecdsa"
	"crypto/ed25519"
	"crypto/rsa"
	"errors"
	"io"

	"github.com/emmansun/gmsm/sm2"
	x509 "github.com/emmansun/gmsm/smx509"
)

// Key-exchange processing of both roles (key_agreement.go) with the public-key primitives replaced at
// their call sites by stubs (E8, E9): C09 (no panic on any body / key type), C02 (what the client
// verifies before accepting a ServerKeyExchange), C04 (pre-master secret construction).
//
//verif:replacecall github.com/emmansun/gmsm/sm2.VerifyASN1WithSM2 verif_sm2_Verify
//verif:replacecall github.com/emmansun/gmsm/sm2.Encrypt verif_sm2_Encrypt
//verif:replacecall github.com/emmansun/gmsm/sm2.PublicKeyToECDH verif_sm2_PublicKeyToECDH
//verif:replacecall (github.com/emmansun/gmsm/ecdh.Curve).NewPublicKey verif_ecdh_NewPublicKey
//
//verif:assume E8: SM2 signature verification is a stub that returns an arbitrary verdict and logs (public key, message, signature); the harness asserts which key and message the code passes and that it honours the verdict
//verif:assume E9: SM2 encryption returns arbitrary ciphertext and logs (public key, plaintext); private-key decryption returns an arbitrary plaintext of arbitrary length or an error; SM2 key agreement returns an arbitrary 48-byte secret or an error
//verif:assume E10 (kx): peer certificates are objects with arbitrary Raw bytes (1..3) and a public key whose dynamic type is one of *ecdsa.PublicKey, *rsa.PublicKey, ed25519.PublicKey

var vkx struct {
	verifyCalls int
	verifyPub   *ecdsa.PublicKey
	verifyMsg   []byte
	verifySig   []byte
	verifyRes   bool
	encCalls    int
	encPub      *ecdsa.PublicKey
	encMsg      []byte
	encOut      []byte
	randBytes   []byte
}

func verif_sm2_Verify(pub *ecdsa.PublicKey, uid, msg, sig []byte) bool {
	vkx.verifyCalls++
	vkx.verifyPub = pub
	vkx.verifyMsg = append([]byte(nil), msg...)
	vkx.verifySig = append([]byte(nil), sig...)
	vkx.verifyRes = verifSplitInt("sigVerdict", 0, 1) == 1
	return vkx.verifyRes
}

func verif_sm2_Encrypt(random io.Reader, pub *ecdsa.PublicKey, msg []byte, opts *sm2.EncrypterOpts) ([]byte, error) {
	vkx.encCalls++
	vkx.encPub = pub
	vkx.encMsg = append([]byte(nil), msg...)
	if verifSplitInt("encFails", 0, 1) == 1 {
		return nil, errors.New("verif: encrypt failed")
	}
	vkx.encOut = verifNondetBytes("sm2ct", verifSplitInt("sm2ctLen", 1, 3))
	return vkx.encOut, nil
}

func verif_sm2_PublicKeyToECDH(k *ecdsa.PublicKey) (*ecdh.PublicKey, error) {
	if verifSplitInt("toECDHFails", 0, 1) == 1 {
		return nil, errors.New("verif: not a valid point")
	}
	return &ecdh.PublicKey{}, nil
}

func verif_ecdh_NewPublicKey(c ecdh.Curve, key []byte) (*ecdh.PublicKey, error) {
	if verifSplitInt("pointInvalid", 0, 1) == 1 {
		return nil, errors.New("verif: invalid point")
	}
	return &ecdh.PublicKey{}, nil
}

type verifRand struct{}

func (verifRand) Read(p []byte) (int, error) {
	b := verifNondetBytes("rand", len(p))
	copy(p, b)
	vkx.randBytes = append(vkx.randBytes, b...)
	return len(p), nil
}

// private keys of the local endpoint
type verifDecrypter struct{}

func (verifDecrypter) Public() crypto.PublicKey { return nil }
func (verifDecrypter) Decrypt(rand io.Reader, msg []byte, opts crypto.DecrypterOpts) ([]byte, error) {
	switch verifSplitInt("decryptOutcome", 0, 3) {
	case 0:
		return nil, errors.New("verif: decryption failed")
	case 1:
		return verifNondetBytes("plain", 48), nil
	case 2:
		return verifNondetBytes("plain", 47), nil
	}
	return nil, nil
}

type verifOpaqueKey struct{}

type verifKE struct{}

func (verifKE) GenerateAgreementData(sponsorId []byte, keyLen int) (*ecdh.PublicKey, *ecdh.PublicKey, error) {
	return &ecdh.PublicKey{}, &ecdh.PublicKey{}, nil
}
func (verifKE) GenerateKey(responseId []byte, responsePubKey, responseTmpPubKey *ecdh.PublicKey) ([]byte, error) {
	if verifSplitInt("keFails", 0, 1) == 1 {
		return nil, errors.New("verif: key agreement failed")
	}
	return verifNondetBytes("agreed", 48), nil
}
func (verifKE) GenerateAgreementDataAndKey(responseId, sponsorId []byte, sponsorPubKey, sponsorTmpPubKey *ecdh.PublicKey, keyLen int) (*ecdh.PublicKey, []byte, error) {
	if verifSplitInt("keFails", 0, 1) == 1 {
		return nil, nil, errors.New("verif: key agreement failed")
	}
	return &ecdh.PublicKey{}, verifNondetBytes("agreed", 48), nil
}

// peerCert builds a parsed-certificate object with an arbitrary key type.
func peerCert(tag string) *x509.Certificate {
	c := &x509.Certificate{Raw: verifNondetBytes("certRaw", verifSplitInt("certRawLen", 1, 2))}
	switch verifSplitInt(tag+"KeyType", 0, 2) {
	case 0:
		c.PublicKey = &ecdsa.PublicKey{}
	case 1:
		c.PublicKey = &rsa.PublicKey{}
	case 2:
		c.PublicKey = ed25519.PublicKey(nil)
	}
	return c
}

func peerCerts(n int) []*x509.Certificate {
	var cs []*x509.Certificate
	names := []string{"sig", "enc", "ca"}
	for i := 0; i < n; i++ {
		cs = append(cs, peerCert(names[i]))
	}
	return cs
}

func newClientHS(ncerts int) *clientHandshakeState {
	c := &Conn{config: &Config{Rand: verifRand{}}, isClient: true}
	return &clientHandshakeState{c: c,
		hello:            &clientHelloMsg{vers: verifNondetU16("helloVers"), random: verifNondetBytes("clientRandom", 32)},
		serverHello:      &serverHelloMsg{random: verifNondetBytes("serverRandom", 32)},
		peerCertificates: peerCerts(ncerts)}
}

func bytesEq(a, b []byte) bool {
	if len(a) != len(b) {
		return false
	}
	eq := true
	for i := range a {
		eq = verifAnd(eq, a[i] == b[i])
	}
	return eq
}

// ---- server side

// ECC: arbitrary ClientKeyExchange body (F2, F3, F4 are index panics on 1..4-byte bodies).
//
//verif:harness props=C09,C03 paths=20000 reach=accepted,rejected
func VerifHarness_C09_kx_ecc_server() {
	n := verifSplitInt("len", 0, verifBound(9, 14))
	body := verifNondetBytes("ckx", n)
	hs := &serverHandshakeState{c: &Conn{config: &Config{Rand: verifRand{}}}, sigCert: &Certificate{}, encCert: &Certificate{}}
	switch verifSplitInt("encKeyKind", 0, 1) {
	case 0:
		hs.encCert.PrivateKey = verifDecrypter{}
	case 1:
		hs.encCert.PrivateKey = verifOpaqueKey{}
	}
	ka := &eccKeyAgreement{}
	pre, err := ka.processClientKeyExchange(hs, &clientKeyExchangeMsg{ciphertext: body})
	if err != nil {
		verifReach("rejected")
	} else {
		verifReach("accepted")
		verifAssert("C09.kx.eccServer.premasterLen", len(pre) == 48)
	}
}

// ECDHE: arbitrary ClientKeyExchange body of the lengths that matter, client certificates of any key type.
//
//verif:harness props=C09,C03 paths=20000 reach=accepted,rejected
func VerifHarness_C09_kx_ecdhe_server() {
	var n int
	switch k := verifSplitInt("lenClass", 0, 12); {
	case k <= 6:
		n = k
	default:
		n = 62 + k // 69..74
	}
	body := verifNondetBytes("ckx", n)
	hs := &serverHandshakeState{c: &Conn{config: &Config{Rand: verifRand{}}}, peerCertificates: peerCerts(verifSplitInt("ncerts", 0, 2))}
	ka := &sm2ECDHEKeyAgreement{ke: verifKE{}}
	pre, err := ka.processClientKeyExchange(hs, &clientKeyExchangeMsg{ciphertext: body})
	if err != nil {
		verifReach("rejected")
	} else {
		verifReach("accepted")
		verifAssert("C09.kx.ecdheServer.premasterLen", len(pre) == 48)
		verifAssert("C09.kx.ecdheServer.needsClientEncCert", len(hs.peerCertificates) >= 2)
	}
}

// ---- client side

// ECC ServerKeyExchange: nil only if the signature over client_random || server_random || uint24 len ||
// encryption certificate was verified with the signing certificate's key and the verdict was true.
//
//verif:harness props=C02,C09,C03 paths=40000 reach=accepted,rejected
func VerifHarness_C02_skx_ecc() {
	hs := newClientHS(verifSplitInt("ncerts", 0, 3))
	n := verifSplitInt("len", 0, verifBound(7, 10))
	key := verifNondetBytes("skx", n)
	ka := &eccKeyAgreement{}
	err := ka.processServerKeyExchange(hs, &serverKeyExchangeMsg{key: key})
	if err != nil {
		verifReach("rejected")
		return
	}
	verifReach("accepted")
	verifAssert("C02.skx.ecc.twoCertificates", len(hs.peerCertificates) >= 2)
	verifAssert("C02.skx.ecc.verifiedOnce", vkx.verifyCalls == 1 && vkx.verifyRes)
	if vkx.verifyCalls == 1 && len(hs.peerCertificates) >= 2 {
		pub, _ := hs.peerCertificates[0].PublicKey.(*ecdsa.PublicKey)
		verifAssert("C02.skx.ecc.signingCertKey", pub != nil && vkx.verifyPub == pub)
		enc := hs.peerCertificates[1].Raw
		want := append(append(append([]byte(nil), hs.hello.random...), hs.serverHello.random...), byte(len(enc)>>16), byte(len(enc)>>8), byte(len(enc)))
		want = append(want, enc...)
		verifAssert("C02.skx.ecc.signedData", bytesEq(vkx.verifyMsg, want))
		verifAssert("C02.skx.ecc.signature", n >= 2 && bytesEq(vkx.verifySig, key[2:]) && int(key[0])<<8|int(key[1]) == n-2)
	}
}

// ECDHE ServerKeyExchange: nil only if the signature over client_random || server_random || ServerECDHParams
// was verified with the signing certificate's key; the temporary key is the one that was signed.
//
//verif:harness props=C02,C09,C03 paths=60000 reach=accepted,rejected
func VerifHarness_C02_skx_ecdhe() {
	hs := newClientHS(verifSplitInt("ncerts", 0, 3))
	n := verifSplitInt("len", 0, verifBound(10, 13))
	key := verifNondetBytes("skx", n)
	if n >= 4 {
		// the point length is an attacker-chosen length field: case-split, contents stay symbolic
		key[3] = byte(verifSplitInt("publicLen", 0, n))
	}
	ka := &sm2ECDHEKeyAgreement{}
	err := ka.processServerKeyExchange(hs, &serverKeyExchangeMsg{key: key})
	if err != nil {
		verifReach("rejected")
		return
	}
	verifReach("accepted")
	verifAssert("C02.skx.ecdhe.twoCertificates", len(hs.peerCertificates) >= 2)
	verifAssert("C02.skx.ecdhe.verifiedOnce", vkx.verifyCalls == 1 && vkx.verifyRes)
	verifAssert("C02.skx.ecdhe.tmpKeySet", ka.peerTmpKey != nil)
	if vkx.verifyCalls == 1 && len(hs.peerCertificates) >= 2 && n >= 4 {
		pub, _ := hs.peerCertificates[0].PublicKey.(*ecdsa.PublicKey)
		verifAssert("C02.skx.ecdhe.signingCertKey", pub != nil && vkx.verifyPub == pub)
		pl := int(key[3])
		want := append(append(append([]byte(nil), hs.hello.random...), hs.serverHello.random...), key[:4+pl]...)
		verifAssert("C02.skx.ecdhe.signedData", bytesEq(vkx.verifyMsg, want))
		verifAssert("C02.skx.ecdhe.signatureFramed", n >= 4+pl+2 && bytesEq(vkx.verifySig, key[4+pl+2:]))
	}
}

// ECC ClientKeyExchange generation: pre-master secret = offered version || 46 random bytes, encrypted to the
// server's ENCRYPTION certificate (peerCertificates[1]); no panic whatever key type that certificate has (F15).
//
//verif:harness props=C09,C04 paths=20000 reach=generated,failed
func VerifHarness_C04_premaster_ecc() {
	hs := newClientHS(verifSplitInt("ncerts", 0, 3))
	ka := &eccKeyAgreement{}
	pre, ckx, err := ka.generateClientKeyExchange(hs)
	if err != nil {
		verifReach("failed")
		return
	}
	verifReach("generated")
	verifAssert("C04.premaster.ecc.len48", len(pre) == 48)
	verifAssert("C04.premaster.ecc.version", len(pre) == 48 && pre[0] == byte(hs.hello.vers>>8) && pre[1] == byte(hs.hello.vers))
	verifAssert("C04.premaster.ecc.restFromRand", len(pre) == 48 && len(vkx.randBytes) >= 46 && bytesEq(pre[2:], vkx.randBytes[:46]))
	pub, _ := hs.peerCertificates[1].PublicKey.(*ecdsa.PublicKey)
	verifAssert("C04.premaster.ecc.encryptedToEncCert", vkx.encCalls == 1 && pub != nil && vkx.encPub == pub && bytesEq(vkx.encMsg, pre))
	ct := vkx.encOut
	verifAssert("C04.premaster.ecc.ckxFraming", len(ckx.ciphertext) == 2+len(ct) && int(ckx.ciphertext[0])<<8|int(ckx.ciphertext[1]) == len(ct) && bytesEq(ckx.ciphertext[2:], ct))
}

// ECDHE ClientKeyExchange generation: needs the server's signed temporary key and the client's own
// encryption key pair; no panic when the server never asked for a certificate (F16) or sent odd key types.
//
//verif:harness props=C09,C04 paths=20000 reach=generated,failed
func VerifHarness_C04_premaster_ecdhe() {
	hs := newClientHS(verifSplitInt("ncerts", 2, 3))
	ka := &sm2ECDHEKeyAgreement{}
	if verifSplitInt("haveTmpKey", 0, 1) == 1 {
		ka.peerTmpKey = &ecdh.PublicKey{}
	}
	switch verifSplitInt("clientEncCert", 0, 2) {
	case 0: // the server sent no CertificateRequest: doFullHandshake leaves hs.encCert nil
	case 1:
		hs.encCert = &Certificate{PrivateKey: verifKE{}}
	case 2:
		hs.encCert = &Certificate{PrivateKey: verifOpaqueKey{}}
	}
	hs.c.config.ClientECDHEParamsAsVector = verifSplitInt("asVector", 0, 1) == 1
	pre, ckx, err := ka.generateClientKeyExchange(hs)
	if err != nil {
		verifReach("failed")
		return
	}
	verifReach("generated")
	verifAssert("C04.premaster.ecdhe.len48", len(pre) == 48)
	verifAssert("C04.premaster.ecdhe.needsSignedTmpKey", ka.peerTmpKey != nil)
	verifAssert("C04.premaster.ecdhe.ckxNonEmpty", ckx != nil && len(ckx.ciphertext) >= 4)
}
