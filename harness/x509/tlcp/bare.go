//go:build verif

package tlcp

// verifBareConn: a connection object with just a configuration and a sink transport (stream stack).
func verifBareConn(cfg *Config, isClient bool) *Conn {
	return &Conn{conn: &verifSink{}, config: cfg, isClient: isClient}
}
