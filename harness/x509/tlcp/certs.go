//go:build verif

package tlcp

//verif:twin dtlcp

import (
	"crypto/ecdsa"
	"crypto/ed25519"
	"crypto/rsa"
	"errors"
	"io"
	"net"
	"time"

	x509 "github.com/emmansun/gmsm/smx509"
)

// Certificate handling of both roles with the X.509 library replaced at its call sites (E10): what gotlcp
// asks the library to verify, with which options, and whether it honours the verdict.
//
//verif:replace certCache.newCert
//verif:replacecall github.com/emmansun/gmsm/smx509.ParseCertificate verif_x509_Parse
//verif:replacecall (*github.com/emmansun/gmsm/smx509.Certificate).Verify verif_x509_Verify
//verif:replacecall (*github.com/emmansun/gmsm/smx509.CertPool).AddCert verif_x509_AddCert
//
//verif:assume E10: smx509.ParseCertificate succeeds or fails arbitrarily; a parsed certificate keeps Raw = der and a public key of arbitrary dynamic type (*ecdsa.PublicKey, *rsa.PublicKey, ed25519.PublicKey); (*Certificate).Verify returns an arbitrary verdict (ok / UnknownAuthorityError / expired CertificateInvalidError / other) and its arguments are logged; CertPool.AddCert is logged

type vxCall struct {
	cert   *x509.Certificate
	roots  *x509.CertPool
	now    time.Time
	dns    string
	usages []x509.ExtKeyUsage
	inter  *x509.CertPool
	ok     bool
}

var vx struct {
	calls    [6]vxCall
	n        int
	parsed   [6]*x509.Certificate
	np       int
	added    [6]*x509.Certificate
	addedTo  [6]*x509.CertPool
	na       int
	alerts   int
	lastCode uint8
}

func newParsed(der []byte) *x509.Certificate {
	c := &x509.Certificate{Raw: der}
	switch verifSplitInt("keyType", 0, 2) {
	case 0:
		c.PublicKey = &ecdsa.PublicKey{}
	case 1:
		c.PublicKey = &rsa.PublicKey{}
	case 2:
		c.PublicKey = ed25519.PublicKey(nil)
	}
	if vx.np < len(vx.parsed) {
		vx.parsed[vx.np] = c
	}
	vx.np++
	return c
}

func verif_x509_Parse(der []byte) (*x509.Certificate, error) {
	if !verifActive() {
		return x509.ParseCertificate(der) // outside a harness run (the package's test initialisers): the real function
	}
	if verifSplitInt("parseOK", 0, 1) == 0 {
		return nil, errors.New("verif: malformed certificate")
	}
	return newParsed(der), nil
}

func (cc *certCache) newCert(der []byte) (*activeCert, error) {
	c, err := verif_x509_Parse(der)
	if err != nil {
		return nil, err
	}
	return &activeCert{c}, nil
}

func verif_x509_Verify(c *x509.Certificate, opts x509.VerifyOptions) ([][]*x509.Certificate, error) {
	if !verifActive() {
		return c.Verify(opts)
	}
	i := vx.n
	if i >= len(vx.calls) {
		verifAssume(false)
	}
	vx.n++
	vx.calls[i] = vxCall{cert: c, roots: opts.Roots, now: opts.CurrentTime, dns: opts.DNSName, usages: opts.KeyUsages, inter: opts.Intermediates}
	switch verifSplitInt("verifyVerdict", 0, 3) {
	case 0:
		vx.calls[i].ok = true
		return [][]*x509.Certificate{{c}}, nil
	case 1:
		return nil, x509.UnknownAuthorityError{}
	case 2:
		return nil, x509.CertificateInvalidError{Reason: x509.Expired}
	}
	return nil, errors.New("verif: other verification failure")
}

func verif_x509_AddCert(p *x509.CertPool, c *x509.Certificate) {
	if !verifActive() {
		p.AddCert(c)
		return
	}
	if vx.na < len(vx.added) {
		vx.added[vx.na] = c
		vx.addedTo[vx.na] = p
	}
	vx.na++
}

type verifAddr struct{}

func (verifAddr) Network() string { return "v" }
func (verifAddr) String() string  { return "peer" }

type verifSink struct{ out []byte }

func (c *verifSink) Read(p []byte) (int, error)         { return 0, io.EOF }
func (c *verifSink) Write(p []byte) (int, error)        { c.out = append(c.out, p...); return len(p), nil }
func (c *verifSink) Close() error                       { return nil }
func (c *verifSink) LocalAddr() net.Addr                { return verifAddr{} }
func (c *verifSink) RemoteAddr() net.Addr               { return verifAddr{} }
func (c *verifSink) SetDeadline(t time.Time) error      { return nil }
func (c *verifSink) SetReadDeadline(t time.Time) error  { return nil }
func (c *verifSink) SetWriteDeadline(t time.Time) error { return nil }

type verifRand0 struct{}

func (verifRand0) Read(p []byte) (int, error) { return len(p), nil }

func rawCerts(n int) [][]byte {
	var cs [][]byte
	for i := 0; i < n; i++ {
		cs = append(cs, verifNondetBytes("der", 1))
	}
	return cs
}

func sameTime(a, b time.Time) bool { return a.Equal(b) }

// C02 — the client's certificate verification in a full handshake: nil (with verification on) only if BOTH
// the signing and the encryption certificate were verified with the configured roots, time and server name,
// the remaining certificates serving as intermediates, and both verdicts were positive.
//
//verif:harness props=C02,C09 paths=60000 reach=accepted,rejected
func VerifHarness_C02_x509_full() {
	n := verifSplitInt("ncerts", 0, 3)
	roots := &x509.CertPool{}
	now := time.Time{}.Add(time.Duration(verifNondetU32("now")))
	cfg := &Config{RootCAs: roots, Time: func() time.Time { return now }, Rand: verifRand0{}}
	cfg.InsecureSkipVerify = verifSplitInt("skipVerify", 0, 1) == 1
	// server name: none, a DNS name, IP literals (the name must reach the X.509 check in every form)
	cfg.ServerName = []string{"", "a.b", "1.2.3.4", "[::1]", "fe80::1%eth0"}[verifSplitInt("serverName", 0, 4)]
	c := verifBareConn(cfg, true)
	err := c.verifyServerCertificate(rawCerts(n))
	if err != nil {
		verifReach("rejected")
		return
	}
	verifReach("accepted")
	verifAssert("C02.x509.twoCertificatesRequired", n >= 2 && len(c.peerCertificates) == n)
	for i := 0; i < n && i < len(c.peerCertificates); i++ {
		verifAssert("C02.x509.peerCertificatesInOrder", c.peerCertificates[i] == vx.parsed[i])
	}
	if cfg.InsecureSkipVerify {
		verifAssert("C02.x509.noVerifiedChainsWhenSkipped", len(c.verifiedChains) == 0)
		return
	}
	verifAssert("C02.x509.bothVerified", vx.n == 2 && vx.calls[0].ok && vx.calls[1].ok)
	if vx.n == 2 && n >= 2 {
		verifAssert("C02.x509.signingCertFirst", vx.calls[0].cert == vx.parsed[0] && vx.calls[1].cert == vx.parsed[1])
		for k := 0; k < 2; k++ {
			verifAssert("C02.x509.configuredRoots", vx.calls[k].roots == roots)
			verifAssert("C02.x509.configuredTime", sameTime(vx.calls[k].now, now))
			verifAssert("C02.x509.configuredName", vx.calls[k].dns == cfg.ServerName)
		}
		verifAssert("C02.x509.restAreIntermediates", vx.na == n-2)
		for i := 2; i < n; i++ {
			verifAssert("C02.x509.intermediateIsCert", vx.added[i-2] == vx.parsed[i] && vx.addedTo[i-2] == vx.calls[0].inter)
		}
	}
	verifAssert("C02.x509.verifiedChainsSet", len(c.verifiedChains) > 0)
}

// C02 — resumption: the certificates recorded with the session pass the same checks under the configuration
// now in use.
//
//verif:harness props=C02,C10 paths=20000 reach=accepted,rejected
func VerifHarness_C02_x509_resumed() {
	n := verifSplitInt("ncerts", 0, 3)
	roots := &x509.CertPool{}
	now := time.Time{}.Add(time.Duration(verifNondetU32("now")))
	cfg := &Config{RootCAs: roots, Time: func() time.Time { return now }, Rand: verifRand0{}, ServerName: "a.b"}
	cfg.InsecureSkipVerify = verifSplitInt("skipVerify", 0, 1) == 1
	c := verifBareConn(cfg, true)
	c.vers = VersionTLCP
	var certs []*x509.Certificate
	for i := 0; i < n; i++ {
		certs = append(certs, newParsed([]byte{byte(i)}))
	}
	// driven through the real processServerHello (abbreviated handshake: the server echoes the offered id): the
	// session was created at ANOTHER instant than the configured "now"
	sid := verifNondetBytes("sid", 32)
	sess := &SessionState{sessionId: sid, vers: VersionTLCP, cipherSuite: ECC_SM4_GCM_SM3, masterSecret: verifNondetBytes("master", 48),
		createdAt: now.Add(time.Duration(1+verifNondetU32("age"))), peerCertificates: certs}
	hs := &clientHandshakeState{c: c, session: sess,
		hello:       &clientHelloMsg{vers: VersionTLCP, sessionId: sid, cipherSuites: []uint16{ECC_SM4_GCM_SM3}},
		serverHello: &serverHelloMsg{vers: VersionTLCP, sessionId: sid, cipherSuite: ECC_SM4_GCM_SM3}}
	resumed, err := hs.processServerHello()
	if err != nil {
		verifReach("rejected")
		return
	}
	verifReach("accepted")
	verifAssert("C02.x509.resumed.isResumed", resumed)
	// C10: a resumed connection has the same peer identity as the original — whether or not the client verifies
	verifAssert("C10.resumed.keepsPeerIdentity", resumed && len(c.peerCertificates) == n && (n == 0 || c.peerCertificates[0] == certs[0]))
	if cfg.InsecureSkipVerify {
		return
	}
	verifAssert("C02.x509.resumed.bothVerified", n >= 2 && vx.n == 2 && vx.calls[0].ok && vx.calls[1].ok)
	if vx.n == 2 && n >= 2 {
		verifAssert("C02.x509.resumed.certs", vx.calls[0].cert == certs[0] && vx.calls[1].cert == certs[1])
		for k := 0; k < 2; k++ {
			verifAssert("C02.x509.resumed.options", vx.calls[k].roots == roots && sameTime(vx.calls[k].now, now) && vx.calls[k].dns == "a.b")
		}
	}
}

// C07 — the server's handling of the client's certificates for the six policies, ECC and ECDHE suites.
//
//verif:harness props=C07,C09,C01 paths=200000 reach=accepted,rejected
func VerifHarness_C07_certs() {
	n := verifSplitInt("ncerts", 0, 3)
	policy := ClientAuthType(verifSplitInt("clientAuth", 0, 5))
	cas := &x509.CertPool{}
	now := time.Time{}.Add(time.Duration(verifNondetU32("now")))
	cfg := &Config{ClientCAs: cas, ClientAuth: policy, Time: func() time.Time { return now }, Rand: verifRand0{}}
	c := verifBareConn(cfg, false)
	ecdhe := verifSplitInt("ecdhe", 0, 1) == 1
	c.cipherSuite = ECC_SM4_GCM_SM3
	if ecdhe {
		c.cipherSuite = ECDHE_SM4_GCM_SM3
	}
	err := c.processCertsFromClient(Certificate{Certificate: rawCerts(n)})
	if err != nil {
		verifReach("rejected")
		return
	}
	verifReach("accepted")
	required := policy == RequireAnyClientCert || policy == RequireAndVerifyClientCert || policy == RequireAndVerifyAnyKeyUsageClientCert
	verifAssert("C07.certs.requiredPresent", !required || n > 0)
	verifAssert("C01.compat.requiredClientCertEnforced", !required || n > 0)
	verifAssert("C07.certs.ecdheNeedsTwo", !ecdhe || n >= 2)
	// C09 (assume-guarantee): the ECDHE code that follows indexes peerCertificates[1]; this is the guarantee it relies on
	verifAssert("C09.certs.ecdheNeedsTwo", !ecdhe || n >= 2)
	verifAssert("C07.certs.peerCertificates", len(c.peerCertificates) == n)
	mustVerify := policy >= VerifyClientCertIfGiven && n > 0
	if mustVerify {
		want := 1
		if ecdhe {
			want = 2
		}
		verifAssert("C07.certs.verified", vx.n == want && vx.calls[0].ok && (want == 1 || vx.calls[1].ok))
		for k := 0; k < vx.n && k < want; k++ {
			verifAssert("C07.certs.rightCert", vx.calls[k].cert == vx.parsed[k])
			verifAssert("C07.certs.clientRoots", vx.calls[k].roots == cas)
			verifAssert("C07.certs.configuredTime", sameTime(vx.calls[k].now, now))
			u := vx.calls[k].usages
			if policy == RequireAndVerifyAnyKeyUsageClientCert {
				verifAssert("C07.certs.anyKeyUsage", len(u) == 1 && u[0] == x509.ExtKeyUsageAny)
			} else {
				verifAssert("C07.certs.clientAuthKeyUsage", len(u) == 2 && u[0] == x509.ExtKeyUsageClientAuth && u[1] == x509.ExtKeyUsageServerAuth)
			}
		}
		verifAssert("C07.certs.verifiedChainsSet", len(c.verifiedChains) > 0)
	} else {
		verifAssert("C07.certs.noVerificationNoChains", len(c.verifiedChains) == 0 && vx.n == 0)
	}
}
