//go:build verif

package dtlcp

import "net"

type verifPSink struct{ verifSink }

func (p *verifPSink) ReadFrom(b []byte) (int, net.Addr, error) { return 0, verifAddr{}, nil }
func (p *verifPSink) WriteTo(b []byte, a net.Addr) (int, error) {
	p.out = append(p.out, b...)
	return len(b), nil
}

// verifBareConn: a connection object with just a configuration and a sink transport (datagram stack).
func verifBareConn(cfg *Config, isClient bool) *Conn {
	return &Conn{pconn: &verifPSink{}, remoteAddr: verifAddr{}, config: cfg, isClient: isClient}
}
