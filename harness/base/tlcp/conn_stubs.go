//go:build verif

package tlcp

//verif:twin dtlcp

import (
	"bytes"
	"errors"
)

//verif:assume E6: SM4-GCM is an ideal AEAD: Seal returns fresh arbitrary ciphertext of len+16 and records (nonce, ad, plaintext, ciphertext); Open succeeds iff (nonce, ad, ciphertext) equals a recorded tuple and returns its plaintext
//verif:assume E7: SM4-CBC is the identity permutation (the attacker sees plaintext and tags); integrity rests on E5
//verif:assume E5: HMAC-SM3 is an uninterpreted function of the MAC'd bytes; unforgeable: the tag of a message the sender never authenticated differs from the 32 bytes at the MAC position of every attacker record

// ---- ideal AEAD shared by the two ends of a connection (one table per direction is enough: one direction is modelled)

var vae struct {
	n     int
	nonce [32][]byte
	ad    [32][]byte
	pt    [32][]byte
	ct    [32][]byte
	opens int
}

type verifInnerAEAD struct{}

func (verifInnerAEAD) NonceSize() int { return 12 }
func (verifInnerAEAD) Overhead() int  { return 16 }
func (verifInnerAEAD) Seal(dst, nonce, plaintext, ad []byte) []byte {
	ct := verifNondetBytes("ct", len(plaintext)+16)
	i := vae.n
	vae.nonce[i] = append([]byte(nil), nonce...)
	vae.ad[i] = append([]byte(nil), ad...)
	vae.pt[i] = append([]byte(nil), plaintext...)
	vae.ct[i] = ct
	vae.n++
	return append(dst, ct...)
}
func (verifInnerAEAD) Open(dst, nonce, ciphertext, ad []byte) ([]byte, error) {
	vae.opens++
	for i := 0; i < vae.n; i++ {
		if bytes.Equal(nonce, vae.nonce[i]) && bytes.Equal(ad, vae.ad[i]) && bytes.Equal(ciphertext, vae.ct[i]) {
			return append(dst, vae.pt[i]...), nil
		}
	}
	return nil, errors.New("verif: authentication failed")
}

// ---- CBC as identity, MAC as an unforgeable uninterpreted function

type verifCBC struct{ ivs int }

func (c *verifCBC) BlockSize() int { return 16 }
func (c *verifCBC) CryptBlocks(dst, src []byte) {
	if len(src)%16 != 0 {
		panic("verif: CryptBlocks input not full blocks")
	}
	copy(dst, src)
}
func (c *verifCBC) SetIV(iv []byte) { c.ivs++ }

var vmac struct {
	n    int
	sent      [32][]byte // messages the sender authenticated
	wire      []byte    // the attacker's stream (for the unforgeability assumption)
	recStarts []int     // offsets of the attacker's records in wire
	allWindows bool     // apply the unforgeability assumption to every 32-byte window of the wire (small wires only)
}

type verifMAC struct {
	sender bool
	buf    []byte
}

func (m *verifMAC) Write(p []byte) (int, error) { m.buf = append(m.buf, p...); return len(p), nil }
func (m *verifMAC) Reset()                      { m.buf = nil }
func (m *verifMAC) Size() int                   { return 32 }
func (m *verifMAC) BlockSize() int              { return 64 }
func (m *verifMAC) Sum(b []byte) []byte {
	msg := append([]byte(nil), m.buf...)
	tag := verifUF("hmac", 32, msg)
	if m.sender {
		vmac.sent[vmac.n] = msg
		vmac.n++
	} else {
		genuine := false
		for i := 0; i < vmac.n; i++ {
			if bytes.Equal(msg, vmac.sent[i]) {
				genuine = true
				break
			}
		}
		if !genuine {
			// E5: an attacker cannot have produced the tag of a message that was never authenticated
			// (the tag is compared with the 32 bytes that follow the MAC'd data inside some attacker record)
			if vmac.allWindows {
				for off := 0; off+32 <= len(vmac.wire); off++ {
					same := true
					for j := 0; j < 32; j++ {
						same = verifAnd(same, vmac.wire[off+j] == tag[j])
					}
					verifAssume(!same)
				}
			}
			n := len(msg) - 13
			for _, rs := range vmac.recStarts {
				off := rs + vmacRecordHeaderLen + 16 + n
				if n < 0 || off+32 > len(vmac.wire) {
					continue
				}
				same := true
				for j := 0; j < 32; j++ {
					same = verifAnd(same, vmac.wire[off+j] == tag[j])
				}
				verifAssume(!same)
			}
		}
	}
	return append(b, tag...)
}

type verifRandSrc struct{}

func (verifRandSrc) Read(p []byte) (int, error) {
	copy(p, verifNondetBytes("rand", len(p)))
	return len(p), nil
}
