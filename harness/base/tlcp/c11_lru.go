//go:build verif

package tlcp

//verif:twin dtlcp

// C11 — the built-in session cache (tlcp/session.go, real container/list) against a reference LRU.
//
//verif:assume C11: sessions are identified by content (a tag in the first byte of a 48-byte master secret), not by pointer, so the cache may store or return copies

type refLRU struct {
	keys [8]byte
	vals [8]int // tag of the stored session, 0 = none
	n    int
	capa int
}

func (r *refLRU) find(k byte) int {
	for i := 0; i < r.n; i++ {
		if r.keys[i] == k {
			return i
		}
	}
	return -1
}

func (r *refLRU) removeAt(i int) {
	for j := i; j+1 < r.n; j++ {
		r.keys[j], r.vals[j] = r.keys[j+1], r.vals[j+1]
	}
	r.n--
}

func (r *refLRU) pushFront(k byte, v int) {
	for j := r.n; j > 0; j-- {
		r.keys[j], r.vals[j] = r.keys[j-1], r.vals[j-1]
	}
	r.keys[0], r.vals[0] = k, v
	r.n++
}

func (r *refLRU) put(k byte, v int) {
	if i := r.find(k); i >= 0 {
		r.removeAt(i)
		if v != 0 {
			r.pushFront(k, v)
		}
		return
	}
	if v == 0 {
		return // deleting an absent key changes nothing
	}
	if r.n == r.capa {
		r.removeAt(r.n - 1) // evict the least recently used
	}
	r.pushFront(k, v)
}

func (r *refLRU) get(k byte) int {
	i := r.find(k)
	if i < 0 {
		return 0
	}
	v := r.vals[i]
	r.removeAt(i)
	r.pushFront(k, v)
	return v
}

func newTaggedSession(tag int) *SessionState {
	ms := make([]byte, 48)
	ms[0] = byte(tag)
	ms[47] = byte(tag)
	return &SessionState{sessionId: []byte{byte(tag)}, vers: VersionTLCP, masterSecret: ms}
}

// checkGot: what Get returned must be the session the reference holds (by tag), intact.
func checkGot(got *SessionState, ok bool, want int) {
	if want == 0 {
		verifAssert("C11.lru.absentNotFound", !ok || got == nil)
		// C10: an identifier the cache no longer holds (never stored, deleted or EVICTED) is unknown: the server
		// then falls back to a full handshake instead of resuming somebody else's session
		verifAssert("C10.cache.unknownOrEvictedIdNotFound", !ok || got == nil)
		return
	}
	verifAssert("C11.lru.presentFound", ok && got != nil)
	if ok && got != nil {
		verifAssert("C11.lru.latestValue", len(got.sessionId) == 1 && int(got.sessionId[0]) == want)
		verifAssert("C10.cache.heldIdReturnsItsOwnSession", len(got.sessionId) == 1 && int(got.sessionId[0]) == want)
		verifAssert("C11.lru.masterSecretIntact", len(got.masterSecret) == 48 && int(got.masterSecret[0]) == want && int(got.masterSecret[47]) == want)
	}
}

// Arbitrary operation sequences: Put(k,new) / Put(k,earlier object: the createNewSession aliasing pattern) /
// Put(k,nil) / Get(k) / Get(""), keys arbitrary one-byte strings (all equality patterns).
//
//verif:harness props=C11,C10 paths=300000 tpaths=5000000 reach=done,evicted,hit,miss
func VerifHarness_C11_lru() {
	capa := verifSplitInt("cap", 1, verifBound(3, 4))
	c := NewLRUSessionCache(capa).(*lruSessionCache)
	ref := &refLRU{capa: capa}
	nops := verifBound(4, 5)
	var objs [8]*SessionState
	nobj := 0
	var held *SessionState // the session a lookup handed out (as to a handshake that is still running)
	heldTag := 0
	for i := 0; i < nops; i++ {
		kb := verifNondetByte("k")
		k := string([]byte{kb})
		switch verifSplitInt("op", 0, 4) {
		case 0: // store a new session
			nobj++
			objs[nobj] = newTaggedSession(nobj)
			full := ref.n == ref.capa && ref.find(kb) < 0
			c.Put(k, objs[nobj])
			ref.put(kb, nobj)
			if full {
				verifReach("evicted")
			}
		case 1: // store an object that is already stored under another key (createNewSession does this)
			if nobj == 0 {
				verifAssume(false)
			}
			j := verifSplitInt("which", 1, nobj)
			c.Put(k, objs[j])
			ref.put(kb, j)
		case 2: // delete
			c.Put(k, nil)
			ref.put(kb, 0)
		case 3: // lookup
			got, ok := c.Get(k)
			want := ref.get(kb)
			if ok && got != nil && want != 0 {
				held, heldTag = got, want // a handshake keeps using what it was given
			}
			if want != 0 {
				verifReach("hit")
			} else {
				verifReach("miss")
			}
			checkGot(got, ok, want)
		case 4: // most recent session
			got, ok := c.Get("")
			if ref.n == 0 {
				verifAssert("C11.lru.emptyHasNoRecent", !ok || got == nil)
			} else {
				checkGot(got, ok, ref.vals[0])
			}
		}
		verifAssert("C11.lru.sizeBound", c.q.Len() <= capa && len(c.m) == c.q.Len())
		verifAssert("C11.lru.sizeMatchesReference", c.q.Len() == ref.n)
	}
	// a session handed out by a lookup stays intact whatever happens to the cache afterwards (eviction and deletion
	// wipe the cache's own copy only): "never changes a session that is in use by a handshake"
	if held != nil {
		verifAssert("C11.lru.handedOutSessionUnaffectedByLaterOperations", len(held.masterSecret) == 48 && int(held.masterSecret[0]) == heldTag && int(held.masterSecret[47]) == heldTag)
	}
	// final sweep: every key the reference holds is found with its latest, intact value (most recent first,
	// so the sweep itself does not disturb what it checks)
	for i := 0; i < ref.n; i++ {
		got, ok := c.Get(string([]byte{ref.keys[i]}))
		checkGot(got, ok, ref.vals[i])
	}
	verifReach("done")
}

//verif:harness props=C11 paths=100 reach=done
func VerifHarness_C11_capacity() {
	n := verifNondetInt("capacity")
	c := NewLRUSessionCache(n).(*lruSessionCache)
	verifAssert("C11.capacity.requestedOrDefault", c.capacity == verifIteInt(n < 1, 64, n))
	verifReach("done")
}
