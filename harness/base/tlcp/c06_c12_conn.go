//go:build verif

package tlcp

import (
	"io"
	"net"
)

// C06 — exact, in-order delivery over an unmodified transport: two real post-handshake Conns joined by a
// byte queue with arbitrary segmentation; writes of 0..3 bytes, reads with buffers of 1..3 bytes, then Close
// of the writer: every Write reports its full length, the bytes read are the bytes written, EOF only at the end.
//
//verif:harness props=C06,C12 paths=600000 tpaths=6000000 reach=eof,allRead
func VerifHarness_C06_pipe() {
	kind := verifSplitInt("cipher", vcGCM, vcCBC)
	iv := verifNondetBytes("iv", 4)
	wt := &verifConn{}
	w := newEstablished(wt, kind, iv, true)
	nw := verifSplitInt("writes", 1, verifBound(2, 3))
	var all []byte
	for i := 0; i < nw; i++ {
		p := verifNondetBytes("pt", verifSplitInt("ptlen", 0, verifBound(2, 3)))
		n, err := w.Write(p)
		verifAssert("C06.pipe.writeFullLength", n == len(p) && err == nil)
		all = append(all, p...)
	}
	closed := verifSplitInt("close", 0, 1) == 1
	if closed {
		verifAssert("C12.pipe.closeOK", w.Close() == nil)
		verifAssert("C12.pipe.secondCloseReportsClosed", w.Close() == net.ErrClosed)
		n, err := w.Write([]byte{1})
		verifAssert("C12.pipe.writeAfterCloseFails", n == 0 && err != nil)
	}
	rt := &verifConn{in: wt.out, seg: verifSplitInt("segmented", 0, 1) == 1, segBudget: verifBound(4, 4)}
	r := newEstablished(rt, kind, iv, false)
	got := 0
	sawEOF := false
	reads := verifBound(4, 5)
	for i := 0; i < reads; i++ {
		buf := make([]byte, verifSplitInt("bufsz", 1, verifBound(2, 2)))
		if i >= 2 {
			buf = make([]byte, 3) // later reads: one buffer size
		}
		n, err := r.Read(buf)
		verifAssert("C06.pipe.noExtraBytes", got+n <= len(all))
		for j := 0; j < n && got+j < len(all); j++ {
			verifAssert("C06.pipe.sameBytes", buf[j] == all[got+j])
		}
		got += n
		if err != nil {
			verifAssert("C06.pipe.everythingDeliveredBeforeEnd", got == len(all))
			verifAssert("C12.pipe.eofOnlyAfterEverything", err == io.EOF && got == len(all))
			verifAssert("C12.pipe.cleanEOFMeansCloseNotifyOrBoundary", err == io.EOF)
			sawEOF = true
			verifReach("eof")
			n2, err2 := r.Read(buf)
			verifAssert("C12.pipe.eofSticky", n2 == 0 && err2 != nil)
			break
		}
		verifAssert("C06.pipe.progress", n > 0)
	}
	if got == len(all) {
		verifReach("allRead")
	}
	_ = sawEOF
}

// C12 — transport end at every byte offset: the reader gets io.EOF only on a record boundary (or after a
// close_notify), only after every byte of the complete records before it; inside a record: io.ErrUnexpectedEOF.
//
//verif:harness props=C12 paths=200000 reach=cleanEOF,unexpectedEOF
func VerifHarness_C12_eof() {
	kind := verifSplitInt("cipher", vcGCM, vcCBC)
	iv := verifNondetBytes("iv", 4)
	wt := &verifConn{}
	w := newEstablished(wt, kind, iv, true)
	nw := verifSplitInt("writes", 1, 2)
	var bounds [4]int // end offsets of the records on the wire
	var plains [4]int // cumulative plaintext bytes at each boundary
	tot := 0
	for i := 0; i < nw; i++ {
		p := verifNondetBytes("pt", verifSplitInt("ptlen", 1, 2))
		w.Write(p)
		tot += len(p)
		bounds[i] = len(wt.out)
		plains[i] = tot
	}
	nrec := nw
	if verifSplitInt("closeNotify", 0, 1) == 1 {
		w.CloseWrite()
		bounds[nrec] = len(wt.out)
		plains[nrec] = tot
		nrec++
	}
	cut := verifSplitInt("cut", 0, len(wt.out))
	rt := &verifConn{in: wt.out[:cut], eofWithData: verifSplitInt("eofWithLastBytes", 0, 1) == 1}
	r := newEstablished(rt, kind, iv, false)
	// complete records before the cut
	complete, onBoundary := 0, cut == 0
	wantPlain := 0
	for i := 0; i < nrec; i++ {
		if bounds[i] <= cut {
			complete = i + 1
			wantPlain = plains[i]
		}
		if bounds[i] == cut {
			onBoundary = true
		}
	}
	sawCloseNotify := nrec > nw && complete == nrec
	got := 0
	var last error
	for i := 0; i < 6; i++ {
		buf := make([]byte, 2)
		n, err := r.Read(buf)
		got += n
		if err != nil {
			last = err
			break
		}
	}
	verifAssert("C12.eof.terminates", last != nil)
	verifAssert("C12.eof.everythingBeforeDelivered", got == wantPlain)
	if onBoundary || sawCloseNotify {
		verifReach("cleanEOF")
		verifAssert("C12.eof.cleanEOFOnBoundary", last == io.EOF)
	} else {
		verifReach("unexpectedEOF")
		verifAssert("C12.eof.unexpectedEOFInsideRecord", last == io.ErrUnexpectedEOF)
	}
}

// C08 / C12 — the record layer before the handshake has completed: no application data is accepted, a
// ChangeCipherSpec only when expected and well formed and with no partial handshake message pending, an
// empty handshake record is refused, errors are latched; arbitrary stream of 0..12 bytes.
//
//verif:harness props=C08,C12,C09,C03 paths=200000 spin=C09.progress.recordLoopTerminates reach=accepted,ccs,error
func VerifHarness_C08_record_prehandshake() {
	// the stream: up to two records whose length fields are attacker-chosen case splits (contents symbolic),
	// optionally cut short
	l1 := verifSplitInt("reclen1", 0, 3)
	stream := verifNondetBytes("rec1", 5+l1)
	stream[3], stream[4] = 0, byte(l1)
	if verifSplitInt("secondRecord", 0, 1) == 1 {
		l2 := verifSplitInt("reclen2", 0, verifBound(2, 3))
		r2 := verifNondetBytes("rec2", 5+l2)
		r2[3], r2[4] = 0, byte(l2)
		stream = append(stream, r2...)
	}
	if verifSplitInt("lengthFieldLies", 0, 1) == 1 {
		stream[4] = byte(verifSplitInt("claimedLen", 0, 5))
	}
	n := verifSplitInt("cut", 0, len(stream))
	stream = stream[:n]
	tc := &verifConn{in: stream}
	c := &Conn{conn: tc, config: &Config{Rand: verifRandSrc{}}}
	c.vers = VersionTLCP
	c.haveVers = verifSplitInt("haveVers", 0, 1) == 1
	expectCCS := verifSplitInt("expectCCS", 0, 1) == 1
	if expectCCS {
		c.in.nextCipher = &verifCBC{}
		c.in.nextMac = &verifMAC{}
	}
	pending := verifSplitInt("pendingHandshakeBytes", 0, 1)
	if pending == 1 {
		c.hand.Write([]byte{1})
	}
	err := c.readRecordOrCCS(expectCCS)
	// the record that may have been accepted: the first one, or the second when the first was a warning alert
	// (dropped and retried)
	off := 0
	// (what counts is the length the first record CLAIMS: with a lying length field of 2 it swallows the first two
	// bytes of what follows, whatever its real body was)
	if n >= 7 && stream[0] == 21 && stream[3] == 0 && stream[4] == 2 && stream[5] == 1 && stream[6] != 0 {
		off = 7
	}
	if err == nil {
		verifReach("accepted")
		verifAssert("C12.early.noAppDataBeforeHandshake", c.input.Len() == 0)
		if c.in.cipher != nil {
			verifReach("ccs")
			verifAssert("C03.ccs.onlyWhenExpected", expectCCS)
			verifAssert("C03.ccs.notAcrossPartialMessage", pending == 0)
			verifAssert("C03.ccs.bodyIsOne", n >= off+6 && stream[off] == 20 && stream[off+3] == 0 && stream[off+4] == 1 && stream[off+5] == 1)
			verifAssert("C08.ccs.seqReset", c.in.seq[0]|c.in.seq[1]|c.in.seq[2]|c.in.seq[3]|c.in.seq[4]|c.in.seq[5]|c.in.seq[6]|c.in.seq[7] == 0)
		} else {
			verifAssert("C08.record.handshakeRecordNonEmpty", c.hand.Len() > pending)
			verifAssert("C08.record.noHandshakeWhenExpectingCCS", !expectCCS)
			verifAssert("C08.record.typeIsHandshake", n >= off+5 && stream[off] == 22)
		}
	} else {
		verifReach("error")
		verifAssert("C12.early.errorLatched", c.in.err != nil)
		verifAssert("C12.early.nothingAccepted", c.input.Len() == 0 && c.in.cipher == nil)
		err2 := c.readRecordOrCCS(expectCCS)
		verifAssert("C12.early.errorSticky", err2 != nil)
	}
	verifAssert("C09.record.consumesOrFails", err != nil || tc.pos > 0)
}

// C09 — a flood of non-advancing records (warning alerts, empty application data after the handshake) is
// cut off after maxUselessRecords; every accepted record consumes input.
//
//verif:harness props=C09 paths=2000 unwind=40 depth=400 reach=cutoff
func VerifHarness_C09_useless_records() {
	kind := verifSplitInt("kind", 0, 1)
	k := 20
	var stream []byte
	for i := 0; i < k; i++ {
		if kind == 0 {
			stream = append(stream, 21, 1, 1, 0, 2, 1, verifNondetByte("alertcode"))
		} else {
			stream = append(stream, 21, 1, 1, 0, 2, 1, 90)
		}
	}
	if kind == 0 {
		for i := 0; i < k; i++ {
			verifAssume(stream[i*7+6] != 0) // not close_notify
		}
	}
	tc := &verifConn{in: stream}
	c := &Conn{conn: tc, config: &Config{Rand: verifRandSrc{}}}
	c.vers = VersionTLCP
	c.haveVers = true
	err := c.readRecordOrCCS(false)
	verifAssert("C09.useless.flooderIsCutOff", err != nil)
	verifAssert("C09.useless.atMostSeventeenConsumed", tc.pos <= 17*7+bytesMinRead+5 && c.retryCount <= maxUselessRecords+1)
	verifReach("cutoff")
}

const bytesMinRead = 512

// C09 (memory) / C12 — after the handshake, handshake records from the (key-holding) peer must not pile
// up in the handshake buffer: Read either fails or leaves nothing buffered.
//
//verif:harness props=C09 paths=20000 reach=done
func VerifHarness_C09_posthandshake_handshake_records() {
	kind := verifSplitInt("cipher", vcGCM, vcCBC)
	iv := verifNondetBytes("iv", 4)
	wt := &verifConn{}
	w := newEstablished(wt, kind, iv, true)
	k := verifSplitInt("handshakeRecords", 1, 2)
	for i := 0; i < k; i++ {
		w.out.Lock()
		w.writeRecordLocked(recordTypeHandshake, verifNondetBytes("hs", verifSplitInt("hslen", 1, 5)))
		w.out.Unlock()
	}
	w.Write([]byte{7})
	rt := &verifConn{in: wt.out}
	r := newEstablished(rt, kind, iv, false)
	buf := make([]byte, 4)
	_, err := r.Read(buf)
	verifAssert("C09.memory.noHandshakeBytesPileUp", err != nil || r.hand.Len() == 0)
	verifReach("done")
}

// C06 — record size limits: the FIRST record that writeRecordLocked emits from an ARBITRARY pre-state
// (bytes / packets sent so far, dynamic record sizing on or off, any cipher, any payload length) carries at
// most 16384 bytes of plaintext and 16384+2048 of ciphertext, and its header length matches. Since the
// pre-state is arbitrary this covers every record of every write of every history.
//
//verif:harness props=C06 paths=5000 reach=written
func VerifHarness_C06_record_size() {
	kind := verifSplitInt("cipher", 0, 2)
	t := &verifSizeConn{}
	c := &Conn{conn: t, config: &Config{Rand: verifRandSrc{}, DynamicRecordSizingDisabled: verifSplitInt("sizingDisabled", 0, 1) == 1}}
	c.vers = VersionTLCP
	c.handshakeStatus = 1
	switch kind {
	case vcGCM:
		c.out.cipher = &prefixNonceAEAD{aead: verifLenAEAD{}}
	case vcCBC:
		c.out.cipher = &verifCBC{}
		c.out.mac = &verifLenMAC{}
	}
	c.bytesSent = int64(verifNondetU64("bytesSent"))
	c.packetsSent = int64(verifNondetU64("packetsSent"))
	// reachable pre-states: counters are non-negative and far from wrapping (2^62 records would take centuries)
	verifAssume(c.bytesSent >= 0 && c.packetsSent >= 0 && c.bytesSent < 1<<62 && c.packetsSent < 1<<62)
	typ := recordTypeApplicationData
	if verifSplitInt("handshakeRecord", 0, 1) == 1 {
		typ = recordTypeHandshake
	}
	// the payload bound of the next record, for every pre-state
	saved := c.packetsSent
	mp := c.maxPayloadSizeForWrite(typ)
	c.packetsSent = saved
	verifAssert("C06.size.maxPayloadInRange", mp >= 1 && mp <= 16384)
	n := verifNondetInt("len")
	verifAssume(n >= 1 && n <= 70000)
	data := verifNondetBytes("data", n)
	t.want = n
	c.writeRecordLocked(typ, data)
	verifAssert("C06.size.atLeastOneRecord", t.records >= 1)
	verifReach("written")
}

// transport that checks the first record and cuts the path at the second
type verifSizeConn struct {
	verifConn
	records int
	want    int
}

func (c *verifSizeConn) Write(p []byte) (int, error) {
	c.records++
	if c.records > 1 {
		verifAssume(false) // later records are first records of a later pre-state
	}
	body := len(p) - 5
	verifAssert("C06.size.ciphertextLimit", body >= 0 && body <= 16384+2048)
	verifAssert("C06.size.headerLengthMatches", len(p) >= 5 && int(p[3])<<8|int(p[4]) == body)
	return len(p), nil
}

// length-only cipher stubs (contents are irrelevant in a size lemma)
type verifLenAEAD struct{}

func (verifLenAEAD) NonceSize() int { return 12 }
func (verifLenAEAD) Overhead() int  { return 16 }
func (verifLenAEAD) Seal(dst, nonce, plaintext, ad []byte) []byte {
	verifAssert("C06.size.plaintextLimit", len(plaintext) >= 1 && len(plaintext) <= 16384)
	return append(dst, verifNondetBytes("ct", len(plaintext)+16)...)
}
func (verifLenAEAD) Open(dst, nonce, ct, ad []byte) ([]byte, error) { return nil, nil }

type verifLenMAC struct{ n int }

func (m *verifLenMAC) Write(p []byte) (int, error) { m.n += len(p); return len(p), nil }
func (m *verifLenMAC) Sum(b []byte) []byte {
	verifAssert("C06.size.plaintextLimit", m.n-13 >= 1 && m.n-13 <= 16384)
	return append(b, make([]byte, 32)...)
}
func (m *verifLenMAC) Reset()         { m.n = 0 }
func (m *verifLenMAC) Size() int      { return 32 }
func (m *verifLenMAC) BlockSize() int { return 64 }

// C12 — stickiness over call sequences: 3 (4) calls, each an arbitrary choice of Read / Write (0 or 1 byte) /
// CloseWrite / Close, on an established connection whose incoming stream is one genuine record followed by one
// arbitrary record (which cannot authenticate): after Close every later Close reports net.ErrClosed and Write
// fails; after CloseWrite every Write (even an empty one) reports the shutdown error; once Read has returned an
// error every later Read fails with no bytes; once a fatal alert was sent (a Read failed on a bad record) every
// Write fails.
//
//verif:harness props=C12 paths=400000 tpaths=4000000 reach=done
func VerifHarness_C12_sticky() {
	iv := verifNondetBytes("iv", 4)
	wt := &verifConn{}
	w := newEstablished(wt, vcGCM, iv, true)
	w.Write([]byte{verifNondetByte("pt")})
	junk := verifNondetBytes("junk", 5+8+1+16)
	junk[3], junk[4] = 0, 8+1+16
	rt := &verifConn{in: append(append([]byte(nil), wt.out...), junk...)}
	c := newEstablished(rt, vcGCM, iv, false)
	closed, shut, readFailed, alertSent := false, false, false, false
	steps := verifBound(3, 4)
	for i := 0; i < steps; i++ {
		switch verifSplitInt("call", 0, 3) {
		case 0:
			n, err := c.Read(make([]byte, 2))
			if readFailed {
				verifAssert("C12.sticky.readKeepsFailing", err != nil && n == 0)
			}
			if err != nil {
				readFailed = true
				if valerts.n > 0 {
					alertSent = true
				}
			}
		case 1:
			l := verifSplitInt("writeLen", 0, 1)
			n, err := c.Write(make([]byte, l))
			if closed {
				verifAssert("C12.sticky.writeAfterCloseFails", err != nil && n == 0)
			}
			if shut {
				verifAssert("C12.sticky.writeAfterCloseWriteFails", err != nil && n == 0)
			}
			if alertSent {
				verifAssert("C12.sticky.writeAfterFatalAlertFails", err != nil && n == 0)
			}
			if !closed && !shut && !alertSent {
				verifAssert("C12.sticky.writeOnHealthyConnection", err == nil && n == l)
			}
		case 2:
			err := c.CloseWrite()
			if !alertSent && !shut && !closed {
				verifAssert("C12.sticky.closeWriteOK", err == nil)
			}
			shut = true
		case 3:
			err := c.Close()
			if closed {
				verifAssert("C12.sticky.secondCloseReportsClosed", err == net.ErrClosed)
			}
			closed = true
			shut = true
		}
	}
	verifReach("done")
}

// C09 — a key-holding peer sends more than maxUselessRecords empty application-data records: Read gives up with
// an error instead of consuming them without end.
//
//verif:harness props=C09 paths=200 depth=600 reach=cutoff
func VerifHarness_C09_empty_records_flood() {
	kind := verifSplitInt("cipher", vcGCM, vcCBC)
	iv := verifNondetBytes("iv", 4)
	wt := &verifConn{}
	w := newEstablished(wt, kind, iv, true)
	var stream []byte
	for i := 0; i < 20; i++ {
		rec := []byte{byte(recordTypeApplicationData), 1, 1, 0, 0}
		rec, _ = w.out.encrypt(rec, nil, verifRandSrc{})
		stream = append(stream, rec...)
	}
	w.Write([]byte{9})
	stream = append(stream, wt.out...)
	rt := &verifConn{in: stream}
	r := newEstablished(rt, kind, iv, false)
	n, err := r.Read(make([]byte, 2))
	verifReach("cutoff")
	verifAssert("C09.useless.emptyRecordFloodIsCutOff", err != nil && n == 0)
}
