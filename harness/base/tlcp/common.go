//go:build verif

package tlcp

import (
	"io"
	"net"
	"time"
)

//verif:assume E1: the transport under a Conn is a stub: the incoming stream has a case-split length and symbolic contents, EOF after it; writes append to a ghost log

type verifAddr struct{}

func (verifAddr) Network() string { return "v" }
func (verifAddr) String() string  { return "peer" }

// verifConn: transport stub. Whole delivery (Read returns min(len(p), available)) unless seg is set,
// in which case each Read returns 1 byte, half or all of min(len(p), available) (case split).
type verifConn struct {
	in     []byte
	pos    int
	out    []byte
	writes int
	reads  int
	closed bool
	seg    bool
	segBudget int // number of transport reads that are still segmented (the rest deliver everything available)
	werr   error
	eofWithData bool // the transport reports io.EOF together with the last bytes (io.Reader allows it: buffered and tunnelled transports do)
}

func (c *verifConn) Read(p []byte) (int, error) {
	c.reads++
	avail := len(c.in) - c.pos
	if avail == 0 {
		return 0, io.EOF
	}
	n := avail
	if len(p) < n {
		n = len(p)
	}
	if n == 0 {
		return 0, nil
	}
	if c.seg && n > 1 && c.segBudget > 0 {
		c.segBudget--
		// segmentation: one byte, about half, or everything that is available (case split)
		switch verifSplitInt("seg", 0, 2) {
		case 0:
			n = 1
		case 1:
			n = (n + 1) / 2
		}
	}
	copy(p, c.in[c.pos:c.pos+n])
	c.pos += n
	if c.eofWithData && c.pos == len(c.in) {
		return n, io.EOF
	}
	return n, nil
}
func (c *verifConn) Write(p []byte) (int, error) {
	if c.werr != nil {
		return 0, c.werr
	}
	c.writes++
	c.out = append(c.out, p...)
	return len(p), nil
}
func (c *verifConn) Close() error                       { c.closed = true; return nil }
func (c *verifConn) LocalAddr() net.Addr                { return verifAddr{} }
func (c *verifConn) RemoteAddr() net.Addr               { return verifAddr{} }
func (c *verifConn) SetDeadline(t time.Time) error      { return nil }
func (c *verifConn) SetReadDeadline(t time.Time) error  { return nil }
func (c *verifConn) SetWriteDeadline(t time.Time) error { return nil }

// frame returns n arbitrary bytes framed the way readHandshake frames a message of the given type.
func frame(typ uint8, n int) []byte {
	data := verifNondetBytes("msg", n)
	if n >= 4 {
		data[0] = typ
		data[1] = byte((n - 4) >> 16)
		data[2] = byte((n - 4) >> 8)
		data[3] = byte(n - 4)
	}
	return data
}

func sameBytes(id string, a, b []byte) {
	verifAssert(id+".len", len(a) == len(b))
	for i := 0; i < len(a) && i < len(b); i++ {
		verifAssert(id+".byte", a[i] == b[i])
	}
}

func verifBareConn(cfg *Config, isClient bool) *Conn {
	return &Conn{conn: &verifConn{}, config: cfg, isClient: isClient}
}

// handshake header length of this stack, and the extra bytes a ClientHello carries between session id and
// cipher suites (the datagram stack's empty cookie vector)
const vhsHeaderLen = 4
const vhsHelloExtra = 0

func verifMarkComplete(c *Conn) { c.handshakeStatus = 1 }
