//go:build verif

package tlcp

// C14 / C09 — handshake codecs of the stream stack (tlcp/handshake_messages.go).
//
// reverse: arbitrary bytes framed as readHandshake frames them; unmarshal true => re-encoding the decoded
// fields reproduces the input (strictness + inverse), never panics (total).
// forward: arbitrary in-range fields; unmarshal(marshal(m)) succeeds and gives the fields back.
//
//verif:assume C14 framing precondition: unmarshal is only ever called by readHandshake with data[0] = message type and data[1:4] = len(data)-4

//verif:harness props=C14,C09,C03 paths=30000 tpaths=2000000 split reach=accepted,rejected
func VerifHarness_C14_rev_certificate() {
	n := verifSplitInt("len", 0, verifBound(16, 24))
	data := frame(typeCertificate, n)
	var m certificateMsg
	if !m.unmarshal(data) {
		verifReach("rejected")
		return
	}
	verifReach("accepted")
	m.raw = nil
	out, err := m.marshal()
	verifAssert("C14.certificate.reencode.noerr", err == nil)
	sameBytes("C14.certificate.reencode", out, data)
}

//verif:harness props=C14,C09,C03 paths=20000 split reach=accepted,rejected
func VerifHarness_C14_rev_certreq() {
	n := verifSplitInt("len", 0, verifBound(16, 22))
	data := frame(typeCertificateRequest, n)
	var m certificateRequestMsg
	if !m.unmarshal(data) {
		verifReach("rejected")
		return
	}
	verifReach("accepted")
	m.raw = nil
	out, _ := m.marshal()
	sameBytes("C14.certreq.reencode", out, data)
}

//verif:harness props=C14,C09,C03 paths=2000 reach=accepted,rejected
func VerifHarness_C14_rev_skx() {
	n := verifSplitInt("len", 0, verifBound(10, 40))
	data := frame(typeServerKeyExchange, n)
	var m serverKeyExchangeMsg
	if !m.unmarshal(data) {
		verifReach("rejected")
		return
	}
	verifReach("accepted")
	m.raw = nil
	out, _ := m.marshal()
	sameBytes("C14.skx.reencode", out, data)
}

//verif:harness props=C14,C09,C03 paths=2000 reach=accepted,rejected
func VerifHarness_C14_rev_ckx() {
	n := verifSplitInt("len", 0, verifBound(10, 40))
	data := frame(typeClientKeyExchange, n)
	var m clientKeyExchangeMsg
	if !m.unmarshal(data) {
		verifReach("rejected")
		return
	}
	verifReach("accepted")
	m.raw = nil
	out, _ := m.marshal()
	sameBytes("C14.ckx.reencode", out, data)
}

//verif:harness props=C14,C09,C03 paths=2000 reach=accepted,rejected
func VerifHarness_C14_rev_shd() {
	n := verifSplitInt("len", 0, 8)
	data := frame(typeServerHelloDone, n)
	var m serverHelloDoneMsg
	if !m.unmarshal(data) {
		verifReach("rejected")
		return
	}
	verifReach("accepted")
	out, _ := m.marshal()
	sameBytes("C14.shd.reencode", out, data)
}

//verif:harness props=C14,C09,C03 paths=5000 reach=accepted,rejected
func VerifHarness_C14_rev_certverify() {
	n := verifSplitInt("len", 0, verifBound(12, 40))
	data := frame(typeCertificateVerify, n)
	var m certificateVerifyMsg
	if !m.unmarshal(data) {
		verifReach("rejected")
		return
	}
	verifReach("accepted")
	m.raw = nil
	out, _ := m.marshal()
	sameBytes("C14.certverify.reencode", out, data)
}

//verif:harness props=C14,C09,C03 paths=5000 reach=accepted,rejected
func VerifHarness_C14_rev_finished() {
	n := verifSplitInt("len", 0, verifBound(18, 40))
	data := frame(typeFinished, n)
	var m finishedMsg
	if !m.unmarshal(data) {
		verifReach("rejected")
		return
	}
	verifReach("accepted")
	m.raw = nil
	out, _ := m.marshal()
	sameBytes("C14.finished.reencode", out, data)
}

// hellos without an extension block: re-encoding is an oracle (DESIGN §6 C14)
//
//verif:harness props=C14,C09,C03 paths=60000 tpaths=600000 split reach=accepted,rejected
func VerifHarness_C14_rev_serverhello_noext() {
	n := verifSplitInt("len", 0, verifBound(46, 50))
	data := frame(typeServerHello, n)
	var m serverHelloMsg
	if !m.unmarshal(data) {
		verifReach("rejected")
		return
	}
	ext := m.ocspStapling || m.alpnProtocol != "" || m.serverNameAck
	// an extension block that is present but carries nothing the library keeps is not reproduced: excluded
	fixed := 4 + 2 + 32 + 1 + len(m.sessionId) + 2 + 1
	if ext || n != fixed {
		return
	}
	verifReach("accepted")
	m.raw = nil
	out, _ := m.marshal()
	sameBytes("C14.serverhello.reencode", out, data)
}

//verif:harness props=C14,C09,C03 paths=60000 tpaths=600000 split reach=accepted,rejected
func VerifHarness_C14_rev_clienthello_noext() {
	n := verifSplitInt("len", 0, verifBound(48, 52))
	data := frame(typeClientHello, n)
	var m clientHelloMsg
	if !m.unmarshal(data) {
		verifReach("rejected")
		return
	}
	fixed := 4 + 2 + 32 + 1 + len(m.sessionId) + 2 + 2*len(m.cipherSuites) + 1 + len(m.compressionMethods)
	if n != fixed {
		return
	}
	verifReach("accepted")
	m.raw = nil
	out, _ := m.marshal()
	sameBytes("C14.clienthello.reencode", out, data)
}

// vsz: a case-split size, pinned to its minimum when every extension is present at once
func vsz(pin bool, tag string, lo, hi int) int {
	if pin {
		return lo
	}
	return verifSplitInt(tag, lo, hi)
}

// ---- forward direction

//verif:harness props=C14 paths=2000 reach=done
func VerifHarness_C14_fwd_finished() {
	n := verifSplitInt("len", 0, verifBound(14, 40))
	m := &finishedMsg{verifyData: verifNondetBytes("vd", n)}
	raw, err := m.marshal()
	verifAssert("C14.finished.fwd.marshal", err == nil)
	var d finishedMsg
	verifAssert("C14.finished.fwd.decodes", d.unmarshal(raw))
	sameBytes("C14.finished.fwd.verifyData", d.verifyData, m.verifyData)
	verifReach("done")
}

//verif:harness props=C14 paths=5000 reach=done
func VerifHarness_C14_fwd_certificate() {
	k := verifSplitInt("ncerts", 0, verifBound(3, 4))
	m := &certificateMsg{}
	for i := 0; i < k; i++ {
		m.certificates = append(m.certificates, verifNondetBytes("cert", verifSplitInt("certlen", 1, verifBound(3, 4))))
	}
	raw, err := m.marshal()
	verifAssert("C14.certificate.fwd.marshal", err == nil)
	var d certificateMsg
	verifAssert("C14.certificate.fwd.decodes", d.unmarshal(raw))
	verifAssert("C14.certificate.fwd.count", len(d.certificates) == k)
	for i := 0; i < k && i < len(d.certificates); i++ {
		sameBytes("C14.certificate.fwd.cert", d.certificates[i], m.certificates[i])
	}
	verifReach("done")
}

//verif:harness props=C14 paths=5000 reach=done
func VerifHarness_C14_fwd_certreq() {
	nt := verifSplitInt("ntypes", 1, 3)
	m := &certificateRequestMsg{certificateTypes: verifNondetBytes("types", nt)}
	k := verifSplitInt("ncas", 0, verifBound(2, 3))
	for i := 0; i < k; i++ {
		m.certificateAuthorities = append(m.certificateAuthorities, verifNondetBytes("ca", verifSplitInt("calen", 1, 3)))
	}
	raw, err := m.marshal()
	verifAssert("C14.certreq.fwd.marshal", err == nil)
	var d certificateRequestMsg
	verifAssert("C14.certreq.fwd.decodes", d.unmarshal(raw))
	sameBytes("C14.certreq.fwd.types", d.certificateTypes, m.certificateTypes)
	verifAssert("C14.certreq.fwd.count", len(d.certificateAuthorities) == k)
	for i := 0; i < k && i < len(d.certificateAuthorities); i++ {
		sameBytes("C14.certreq.fwd.ca", d.certificateAuthorities[i], m.certificateAuthorities[i])
	}
	verifReach("done")
}

//verif:harness props=C14 paths=2000 reach=done
func VerifHarness_C14_fwd_kx_cv() {
	n := verifSplitInt("len", 0, verifBound(6, 20))
	body := verifNondetBytes("body", n)
	switch verifSplitInt("type", 0, 2) {
	case 0:
		m := &serverKeyExchangeMsg{key: body}
		raw, _ := m.marshal()
		var d serverKeyExchangeMsg
		verifAssert("C14.skx.fwd.decodes", d.unmarshal(raw))
		sameBytes("C14.skx.fwd.key", d.key, body)
	case 1:
		m := &clientKeyExchangeMsg{ciphertext: body}
		raw, _ := m.marshal()
		var d clientKeyExchangeMsg
		verifAssert("C14.ckx.fwd.decodes", d.unmarshal(raw))
		sameBytes("C14.ckx.fwd.ciphertext", d.ciphertext, body)
	case 2:
		m := &certificateVerifyMsg{signature: body}
		raw, _ := m.marshal()
		var d certificateVerifyMsg
		verifAssert("C14.certverify.fwd.decodes", d.unmarshal(raw))
		sameBytes("C14.certverify.fwd.signature", d.signature, body)
	}
	verifReach("done")
}

//verif:harness props=C14 paths=5000 reach=done
func VerifHarness_C14_fwd_serverhello() {
	sid := verifSplitInt("sidlen", 0, 2) * 16 // 0, 16, 32
	m := &serverHelloMsg{
		vers:              verifNondetU16("vers"),
		random:            verifNondetBytes("random", 32),
		sessionId:         verifNondetBytes("sid", sid),
		cipherSuite:       verifNondetU16("suite"),
		compressionMethod: verifNondetByte("comp"),
		serverNameAck:     verifSplitInt("ack", 0, 1) == 1,
	}
	if verifSplitInt("alpn", 0, 1) == 1 {
		m.alpnProtocol = string(verifNondetBytes("proto", verifSplitInt("protolen", 1, 3)))
	}
	if verifSplitInt("ocsp", 0, 1) == 1 {
		m.ocspStapling = true
		m.ocspResponse = verifNondetBytes("ocsp", verifSplitInt("ocsplen", 1, 3))
	}
	raw, err := m.marshal()
	verifAssert("C14.serverhello.fwd.marshal", err == nil)
	var d serverHelloMsg
	verifAssert("C14.serverhello.fwd.decodes", d.unmarshal(raw))
	verifAssert("C14.serverhello.fwd.scalars", d.vers == m.vers && d.cipherSuite == m.cipherSuite && d.compressionMethod == m.compressionMethod &&
		d.serverNameAck == m.serverNameAck && d.ocspStapling == m.ocspStapling)
	verifAssert("C14.serverhello.fwd.alpn", d.alpnProtocol == m.alpnProtocol)
	sameBytes("C14.serverhello.fwd.random", d.random, m.random)
	sameBytes("C14.serverhello.fwd.sessionId", d.sessionId, m.sessionId)
	sameBytes("C14.serverhello.fwd.ocspResponse", d.ocspResponse, m.ocspResponse)
	verifReach("done")
}

//verif:harness props=C14 paths=20000 reach=done
func VerifHarness_C14_fwd_clienthello() {
	sid := verifSplitInt("sidlen", 0, 1) * 32
	m := &clientHelloMsg{
		vers:               verifNondetU16("vers"),
		random:             verifNondetBytes("random", 32),
		sessionId:          verifNondetBytes("sid", sid),
		compressionMethods: verifNondetBytes("comp", 1),
	}
	// one extension at a time (with its own size splits) plus the all-at-once case (sizes fixed at their minimum)
	which := verifSplitInt("ext", 0, 8)
	all := which == 8
	ns := 1
	if which == 0 {
		ns = verifSplitInt("nsuites", 1, 3)
	}
	for i := 0; i < ns; i++ {
		m.cipherSuites = append(m.cipherSuites, verifNondetU16("suite"))
	}
	if which == 1 || all {
		name := verifNondetBytes("sni", vsz(all, "snilen", 1, 3))
		verifAssume(name[len(name)-1] != '.')
		m.serverName = string(name)
	}
	if which == 2 || all {
		m.ocspStapling = true
	}
	if which == 3 || all {
		k := vsz(all, "ncurves", 1, 2)
		for i := 0; i < k; i++ {
			m.supportedCurves = append(m.supportedCurves, CurveID(verifNondetU16("curve")))
		}
	}
	if which == 4 || all {
		k := vsz(all, "nsigalgs", 1, 2)
		for i := 0; i < k; i++ {
			m.supportedSignatureAlgorithms = append(m.supportedSignatureAlgorithms, SignatureScheme(verifNondetU16("sigalg")))
		}
	}
	if which == 5 || all {
		k := vsz(all, "nalpn", 1, 2)
		for i := 0; i < k; i++ {
			m.alpnProtocols = append(m.alpnProtocols, string(verifNondetBytes("alpn", vsz(all, "alpnlen", 1, 2))))
		}
	}
	if which == 6 || all {
		m.ibsdhClientID = verifNondetBytes("ibsdh", vsz(all, "ibsdhlen", 1, 3))
	}
	if which == 7 || all {
		k := vsz(all, "ntas", 1, 2)
		for i := 0; i < k; i++ {
			ta := TrustedAuthority{}
			switch verifSplitInt("tatype", 0, 3) {
			case 0:
				ta.IdentifierType = IdentifierTypePreAgreed
			case 1:
				ta.IdentifierType = IdentifierTypeKeySM3Hash
				ta.Identifier = verifNondetBytes("tahash", 32)
			case 2:
				ta.IdentifierType = IdentifierTypeCertSM3Hash
				ta.Identifier = verifNondetBytes("tahash", 32)
			case 3:
				ta.IdentifierType = IdentifierTypeX509Name
				ta.Identifier = verifNondetBytes("taname", vsz(all, "tanamelen", 1, 3))
			}
			m.trustedAuthorities = append(m.trustedAuthorities, ta)
		}
	}
	raw, err := m.marshal()
	verifAssert("C14.clienthello.fwd.marshal", err == nil)
	var d clientHelloMsg
	verifAssert("C14.clienthello.fwd.decodes", d.unmarshal(raw))
	verifAssert("C14.clienthello.fwd.scalars", d.vers == m.vers && d.ocspStapling == m.ocspStapling && d.serverName == m.serverName)
	sameBytes("C14.clienthello.fwd.random", d.random, m.random)
	sameBytes("C14.clienthello.fwd.sessionId", d.sessionId, m.sessionId)
	sameBytes("C14.clienthello.fwd.compression", d.compressionMethods, m.compressionMethods)
	sameBytes("C14.clienthello.fwd.ibsdh", d.ibsdhClientID, m.ibsdhClientID)
	verifAssert("C14.clienthello.fwd.counts", len(d.cipherSuites) == len(m.cipherSuites) && len(d.supportedCurves) == len(m.supportedCurves) &&
		len(d.supportedSignatureAlgorithms) == len(m.supportedSignatureAlgorithms) && len(d.alpnProtocols) == len(m.alpnProtocols) &&
		len(d.trustedAuthorities) == len(m.trustedAuthorities))
	for i := 0; i < len(m.cipherSuites) && i < len(d.cipherSuites); i++ {
		verifAssert("C14.clienthello.fwd.suite", d.cipherSuites[i] == m.cipherSuites[i])
	}
	for i := 0; i < len(m.supportedCurves) && i < len(d.supportedCurves); i++ {
		verifAssert("C14.clienthello.fwd.curve", d.supportedCurves[i] == m.supportedCurves[i])
	}
	for i := 0; i < len(m.supportedSignatureAlgorithms) && i < len(d.supportedSignatureAlgorithms); i++ {
		verifAssert("C14.clienthello.fwd.sigalg", d.supportedSignatureAlgorithms[i] == m.supportedSignatureAlgorithms[i])
	}
	for i := 0; i < len(m.alpnProtocols) && i < len(d.alpnProtocols); i++ {
		verifAssert("C14.clienthello.fwd.alpn", d.alpnProtocols[i] == m.alpnProtocols[i])
	}
	for i := 0; i < len(m.trustedAuthorities) && i < len(d.trustedAuthorities); i++ {
		verifAssert("C14.clienthello.fwd.taType", d.trustedAuthorities[i].IdentifierType == m.trustedAuthorities[i].IdentifierType)
		sameBytes("C14.clienthello.fwd.taId", d.trustedAuthorities[i].Identifier, m.trustedAuthorities[i].Identifier)
	}
	verifReach("done")
}

// ---- totality on arbitrary (unframed) bytes: no panic

//verif:harness props=C09,C14,C03 paths=200000 tpaths=2000000 split reach=accepted,rejected
func VerifHarness_C09_unmarshal_any() {
	typ := verifSplitInt("type", 0, 8)
	maxn := verifBound(16, 24)
	if typ <= 1 {
		maxn = verifBound(50, 56) // hellos: 42 fixed bytes + vectors
	}
	n := verifSplitInt("len", 0, maxn)
	data := verifNondetBytes("msg", n)
	var m handshakeMessage
	switch typ {
	case 0:
		m = new(clientHelloMsg)
	case 1:
		m = new(serverHelloMsg)
	case 2:
		m = new(certificateMsg)
	case 3:
		m = new(serverKeyExchangeMsg)
	case 4:
		m = new(certificateRequestMsg)
	case 5:
		m = new(serverHelloDoneMsg)
	case 6:
		m = new(clientKeyExchangeMsg)
	case 7:
		m = new(certificateVerifyMsg)
	case 8:
		m = new(finishedMsg)
	}
	if m.unmarshal(data) {
		verifReach("accepted")
	} else {
		verifReach("rejected")
	}
}

// C14 strictness inside extension blocks: a ClientHello with exactly one known extension, as the real encoder
// emits it, with ONE arbitrary byte appended inside that extension (all enclosing length fields adjusted): no
// extension may carry bytes its decoder does not consume.
//
//verif:harness props=C14,C03 paths=20000 reach=checked
func VerifHarness_C14_rev_clienthello_extension_strict() {
	m := &clientHelloMsg{vers: verifNondetU16("vers"), random: verifNondetBytes("random", 32), compressionMethods: []byte{0}, cipherSuites: []uint16{verifNondetU16("suite")}}
	which := verifSplitInt("ext", 1, 6)
	switch which {
	case 1:
		m.serverName = "a"
	case 2:
		m.ocspStapling = true
	case 3:
		m.supportedCurves = []CurveID{CurveID(verifNondetU16("curve"))}
	case 4:
		m.supportedSignatureAlgorithms = []SignatureScheme{SignatureScheme(verifNondetU16("sigalg"))}
	case 5:
		m.alpnProtocols = []string{"a"}
	case 6:
		m.ibsdhClientID = verifNondetBytes("ibsdh", 2)
	}
	raw, err := m.marshal()
	verifAssert("C14.extstrict.marshal", err == nil)
	var probe clientHelloMsg
	verifAssert("C14.extstrict.validDecodes", probe.unmarshal(append([]byte(nil), raw...)))
	// layout: header | version(2) random(32) sidlen(1) [cookie len] suites(2+2) comp(1+1) | extblock len(2) | type(2) len(2) data
	fixed := vhsHeaderLen + 2 + 32 + 1 + vhsHelloExtra + 2 + 2 + 1 + 1
	if len(raw) < fixed+6 {
		verifAssert("C14.extstrict.layout", false)
		return
	}
	bad := append(append([]byte(nil), raw...), verifNondetByte("extraByte"))
	bump16 := func(off int) {
		v := int(bad[off])<<8 | int(bad[off+1])
		v++
		bad[off], bad[off+1] = byte(v>>8), byte(v)
	}
	bump24 := func(off int) {
		v := int(bad[off])<<16 | int(bad[off+1])<<8 | int(bad[off+2])
		v++
		bad[off], bad[off+1], bad[off+2] = byte(v>>16), byte(v>>8), byte(v)
	}
	bump24(1) // message length
	if vhsHeaderLen == 12 {
		bump24(9) // fragment length
	}
	bump16(fixed)     // extension block length
	bump16(fixed + 4) // this extension's length
	var d clientHelloMsg
	ok := d.unmarshal(bad)
	verifReach("checked")
	verifAssert("C14.extstrict.trailingByteInExtensionRejected", !ok)
}

// C14 strictness without the framing precondition: the decoders receive a SLICE; its length is the outer
// length. The three header bytes that repeat that length are arbitrary here (not tied to len(data)). A decoder
// that accepts must have consumed the whole slice: re-encoding the decoded fields gives a message of the same
// length whose bytes equal the input everywhere except, possibly, in those three header bytes. (A decoder
// that validates the inner lengths against the header field instead of the slice accepts trailing bytes.)
//
//verif:harness props=C14 paths=200000 tpaths=2000000 split reach=accepted,rejected
func VerifHarness_C14_rev_slice_is_outer() {
	typ := verifSplitInt("type", 2, 8)
	n := verifSplitInt("len", 4, verifBound(14, 20))
	data := verifNondetBytes("msg", n)
	var m handshakeMessage
	switch typ {
	case 2:
		data[0] = typeCertificate
		m = new(certificateMsg)
	case 3:
		data[0] = typeServerKeyExchange
		m = new(serverKeyExchangeMsg)
	case 4:
		data[0] = typeCertificateRequest
		m = new(certificateRequestMsg)
	case 5:
		data[0] = typeServerHelloDone
		m = new(serverHelloDoneMsg)
	case 6:
		data[0] = typeClientKeyExchange
		m = new(clientKeyExchangeMsg)
	case 7:
		data[0] = typeCertificateVerify
		m = new(certificateVerifyMsg)
	case 8:
		data[0] = typeFinished
		m = new(finishedMsg)
	}
	in := append([]byte(nil), data...)
	if !m.unmarshal(data) {
		verifReach("rejected")
		return
	}
	verifReach("accepted")
	switch x := m.(type) {
	case *certificateMsg:
		x.raw = nil
	case *serverKeyExchangeMsg:
		x.raw = nil
	case *certificateRequestMsg:
		x.raw = nil
	case *clientKeyExchangeMsg:
		x.raw = nil
	case *certificateVerifyMsg:
		x.raw = nil
	case *finishedMsg:
		x.raw = nil
	}
	out, err := m.marshal()
	verifAssert("C14.sliceouter.reencodes", err == nil)
	verifAssert("C14.sliceouter.wholeSliceConsumed", len(out) == len(in))
	for i := 0; i < len(out) && i < len(in); i++ {
		if i >= 1 && i <= 3 {
			continue
		}
		verifAssert("C14.sliceouter.sameBytes", out[i] == in[i])
	}
}

// C14 strictness inside the ServerHello's ALPN extension: the server's reply carries EXACTLY one protocol name. The
// real encoder's output for one name, with one arbitrary byte appended inside the protocol-name list (every
// enclosing length adjusted: the list now holds the name plus junk or the start of a second name), must be refused.
//
//verif:harness props=C14 paths=2000 reach=checked
func VerifHarness_C14_rev_serverhello_alpn_strict() {
	m := &serverHelloMsg{vers: verifNondetU16("vers"), random: verifNondetBytes("random", 32), cipherSuite: verifNondetU16("suite"), alpnProtocol: "a"}
	raw, err := m.marshal()
	verifAssert("C14.shalpn.marshal", err == nil)
	var probe serverHelloMsg
	verifAssert("C14.shalpn.validDecodes", probe.unmarshal(append([]byte(nil), raw...)) && probe.alpnProtocol == "a")
	// layout: header | version(2) random(32) sidlen(1) suite(2) comp(1) | extblock len(2) | type(2) len(2) | list len(2) | name len(1) name
	fixed := vhsHeaderLen + 2 + 32 + 1 + 2 + 1
	if len(raw) != fixed+2+4+2+2 {
		verifAssert("C14.shalpn.layout", false)
		return
	}
	bad := append(append([]byte(nil), raw...), verifNondetByte("extraByte"))
	bump16 := func(off int) {
		v := int(bad[off])<<8 | int(bad[off+1])
		v++
		bad[off], bad[off+1] = byte(v>>8), byte(v)
	}
	bump24 := func(off int) {
		v := int(bad[off])<<16 | int(bad[off+1])<<8 | int(bad[off+2])
		v++
		bad[off], bad[off+1], bad[off+2] = byte(v>>16), byte(v>>8), byte(v)
	}
	bump24(1)
	if vhsHeaderLen == 12 {
		bump24(9)
	}
	bump16(fixed)     // extension block
	bump16(fixed + 4) // ALPN extension
	bump16(fixed + 6) // protocol name list
	var d serverHelloMsg
	ok := d.unmarshal(bad)
	verifReach("checked")
	verifAssert("C14.shalpn.secondNameOrJunkRejected", !ok)
}
