//go:build verif

package tlcp

// record header length of this stack (where the MAC sits inside an attacker record)
const vmacRecordHeaderLen = 5

const (
	vcGCM = 1
	vcCBC = 2
)

var valerts struct {
	n     int
	codes [8]uint8
}

// newEstablished builds a connection in the state the handshake leaves it in: version fixed, handshake
// complete, cipher of the given kind installed in both directions.
func newEstablished(t *verifConn, kind int, iv []byte, sender bool) *Conn {
	c := &Conn{conn: t, config: &Config{DynamicRecordSizingDisabled: true, Rand: verifRandSrc{}}}
	c.config.OnAlert = func(code uint8, conn *Conn) {
		if valerts.n < len(valerts.codes) {
			valerts.codes[valerts.n] = code
		}
		valerts.n++
	}
	c.vers = VersionTLCP
	c.haveVers = true
	c.in.version, c.out.version = VersionTLCP, VersionTLCP
	c.handshakeStatus = 1
	c.handshakes = 1
	switch kind {
	case vcGCM:
		a := &prefixNonceAEAD{aead: verifInnerAEAD{}}
		copy(a.nonce[:], iv)
		b := &prefixNonceAEAD{aead: verifInnerAEAD{}}
		copy(b.nonce[:], iv)
		c.in.cipher, c.out.cipher = a, b
	case vcCBC:
		c.in.cipher, c.out.cipher = &verifCBC{}, &verifCBC{}
		c.in.mac, c.out.mac = &verifMAC{sender: sender}, &verifMAC{sender: sender}
	}
	return c
}
