//go:build verif

package tlcp

// C05 — attacked record streams: the sender's real Write path produces K genuine application records; an
// attacker delivers an arbitrary stream of records (arbitrary type, version, contents; lengths case-split
// around the genuine length); the receiver's real Read path must hand out only a prefix of the genuine
// plaintext, made of whole records, and then fail for ever.
//
//verif:harness props=C05 paths=400000 tpaths=4000000 split reach=allDelivered,noneDelivered,someDelivered,failed
func VerifHarness_C05_stream() {
	kind := verifSplitInt("cipher", vcGCM, vcCBC)
	verifTag("cipher", kind)
	iv := verifNondetBytes("iv", 4)
	wt := &verifConn{}
	w := newEstablished(wt, kind, iv, true)
	k := verifBound(2, 2)
	var pt [3][]byte
	var all []byte
	for i := 0; i < k; i++ {
		pt[i] = verifNondetBytes("pt", verifSplitInt("ptlen", 1, 2))
		n, err := w.Write(pt[i])
		verifAssert("C06.stream.writeFullLength", n == len(pt[i]) && err == nil)
		all = append(all, pt[i]...)
	}
	verifAssert("C06.stream.oneRecordPerSmallWrite", wt.writes == k)
	// genuine record lengths (header included), from the real write path
	var glen [3]int
	off := 0
	for i := 0; i < k; i++ {
		glen[i] = 5 + (int(wt.out[off+3])<<8 | int(wt.out[off+4]))
		off += glen[i]
	}
	verifAssert("C05.stream.headerLengthsConsistent", off == len(wt.out))
	// the attacker's stream: m records; each record's length is a case split around the genuine lengths
	maxm := verifBound(1, 2) // CBC: every feasible padding length of every attacker record is its own path
	if kind == vcGCM {
		maxm = 3
	}
	m := verifSplitInt("attackerRecords", 1, maxm)
	var wire []byte
	for i := 0; i < m; i++ {
		var l int
		switch verifSplitInt("reclen", 0, 4) {
		case 0:
			l = glen[0]
		case 1:
			l = glen[k-1]
		case 2:
			l = glen[0] - 1
		case 3:
			l = glen[0] + 16
		case 4:
			l = 5 + 2 // alert-sized body
		}
		vmac.recStarts = append(vmac.recStarts, len(wire))
		rec := verifNondetBytes("wire", l)
		rec[3] = byte((l - 5) >> 8)
		rec[4] = byte(l - 5)
		wire = append(wire, rec...)
	}
	vmac.wire = wire
	rt := &verifConn{in: wire}
	r := newEstablished(rt, kind, iv, false)
	failed := false
	delivered := 0
	reads := verifBound(3, 4)
	for i := 0; i < reads; i++ {
		buf := make([]byte, verifSplitInt("bufsz", 1, 2))
		n, err := r.Read(buf)
		if failed {
			verifAssert("C05.stream.stickyError", err != nil && n == 0)
			continue
		}
		// bytes handed out (with or without an error) must continue the genuine plaintext
		verifAssert("C05.stream.onlyGenuineInOrder", delivered+n <= len(all))
		for j := 0; j < n && delivered+j < len(all); j++ {
			verifAssert("C05.stream.genuineByte", buf[j] == all[delivered+j])
		}
		delivered += n
		if err != nil {
			failed = true
			verifReach("failed")
			continue
		}
		verifAssert("C05.stream.progress", n > 0)
	}
	switch {
	case delivered == len(all):
		verifReach("allDelivered")
	case delivered == 0:
		verifReach("noneDelivered")
	default:
		verifReach("someDelivered")
	}
}

// C05 / C09 — halfConn.decrypt for CBC on an ARBITRARY record (whole blocks, 3 or 4 of them after the IV):
// never panics; every failure is exactly bad_record_mac and leaves the sequence number alone; success advances
// it by one. (Without the sender's MAC log every accepted record would be a forgery: none may be accepted.)
//
//verif:harness props=C05,C09 paths=20000 split reach=rejected
func VerifHarness_C05_decrypt_cbc() {
	blocks := verifSplitInt("blocks", 3, 4)
	rec := verifNondetBytes("record", vmacRecordHeaderLen+16+16*blocks)
	hc := &halfConn{cipher: &verifCBC{}, mac: &verifMAC{}}
	copy(hc.seq[:], verifNondetBytes("seq", 8))
	before := hc.seq
	vmac.wire = rec
	vmac.recStarts = []int{0}
	_, _, err := hc.decrypt(rec)
	if err != nil {
		verifReach("rejected")
		verifAssert("C05.decrypt.uniformAlert", err == error(alertBadRecordMAC))
		verifAssert("C05.decrypt.seqUnchangedOnFailure", hc.seq == before)
	} else {
		verifAssert("C05.decrypt.noForgeryAccepted", false)
	}
}
