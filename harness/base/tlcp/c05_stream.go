//go:build verif

package tlcp

// C05 — attacked record streams: the sender's real Write path produces K genuine application records; an
// attacker delivers an arbitrary stream of records (arbitrary type, version, contents; lengths case-split
// around the genuine length); the receiver's real Read path must hand out only a prefix of the genuine
// plaintext, made of whole records, and then fail for ever.
//
//verif:harness props=C05 paths=400000 tpaths=4000000 split reach=allDelivered,noneDelivered,someDelivered,failed
func VerifHarness_C05_stream() {
	kind := verifSplitInt("cipher", vcGCM, vcCBC)
	verifTag("cipher", kind)
	iv := verifNondetBytes("iv", 4)
	wt := &verifConn{}
	w := newEstablished(wt, kind, iv, true)
	k := verifBound(2, 2)
	var pt [3][]byte
	var all []byte
	for i := 0; i < k; i++ {
		pt[i] = verifNondetBytes("pt", verifSplitInt("ptlen", 1, 2))
		n, err := w.Write(pt[i])
		verifAssert("C06.stream.writeFullLength", n == len(pt[i]) && err == nil)
		all = append(all, pt[i]...)
	}
	verifAssert("C06.stream.oneRecordPerSmallWrite", wt.writes == k)
	// genuine record lengths (header included), from the real write path
	var glen [3]int
	off := 0
	for i := 0; i < k; i++ {
		glen[i] = 5 + (int(wt.out[off+3])<<8 | int(wt.out[off+4]))
		off += glen[i]
	}
	verifAssert("C05.stream.headerLengthsConsistent", off == len(wt.out))
	// the attacker's stream: m records; each record's length is a case split around the genuine lengths
	maxm := 1 // CBC: every feasible padding length of every attacker record is its own path (two attacker records under CBC did not finish in 10 minutes on 16 cores: outside both tiers)
	if kind == vcGCM {
		maxm = 3
	}
	m := verifSplitInt("attackerRecords", 1, maxm)
	var wire []byte
	for i := 0; i < m; i++ {
		var l int
		switch verifSplitInt("reclen", 0, 4) {
		case 0:
			l = glen[0]
		case 1:
			l = glen[k-1]
		case 2:
			l = glen[0] - 1
		case 3:
			l = glen[0] + 16
		case 4:
			l = 5 + 2 // alert-sized body
		}
		vmac.recStarts = append(vmac.recStarts, len(wire))
		rec := verifNondetBytes("wire", l)
		rec[3] = byte((l - 5) >> 8)
		rec[4] = byte(l - 5)
		wire = append(wire, rec...)
	}
	vmac.wire = wire
	rt := &verifConn{in: wire}
	r := newEstablished(rt, kind, iv, false)
	failed := false
	delivered := 0
	reads := verifBound(3, 4)
	for i := 0; i < reads; i++ {
		buf := make([]byte, verifSplitInt("bufsz", 1, 2))
		n, err := r.Read(buf)
		if failed {
			verifAssert("C05.stream.stickyError", err != nil && n == 0)
			continue
		}
		// bytes handed out (with or without an error) must continue the genuine plaintext
		verifAssert("C05.stream.onlyGenuineInOrder", delivered+n <= len(all))
		for j := 0; j < n && delivered+j < len(all); j++ {
			verifAssert("C05.stream.genuineByte", buf[j] == all[delivered+j])
		}
		delivered += n
		if err != nil {
			failed = true
			verifReach("failed")
			continue
		}
		verifAssert("C05.stream.progress", n > 0)
	}
	switch {
	case delivered == len(all):
		verifReach("allDelivered")
	case delivered == 0:
		verifReach("noneDelivered")
	default:
		verifReach("someDelivered")
	}
}

// C05 / C09 — halfConn.decrypt for CBC on an ARBITRARY record (whole blocks, 3 or 4 of them after the IV):
// never panics; every failure is exactly bad_record_mac and leaves the sequence number alone; success advances
// it by one. (Without the sender's MAC log every accepted record would be a forgery: none may be accepted.)
//
//verif:harness props=C05,C09 paths=20000 split reach=rejected
func VerifHarness_C05_decrypt_cbc() {
	blocks := verifSplitInt("blocks", 3, 4)
	rec := verifNondetBytes("record", vmacRecordHeaderLen+16+16*blocks)
	hc := &halfConn{cipher: &verifCBC{}, mac: &verifMAC{}}
	copy(hc.seq[:], verifNondetBytes("seq", 8))
	before := hc.seq
	vmac.wire = rec
	vmac.recStarts = []int{0}
	_, _, err := hc.decrypt(rec)
	if err != nil {
		verifReach("rejected")
		verifAssert("C05.decrypt.uniformAlert", err == error(alertBadRecordMAC))
		verifAssert("C05.decrypt.seqUnchangedOnFailure", hc.seq == before)
	} else {
		verifAssert("C05.decrypt.noForgeryAccepted", false)
	}
}

// C05 / C12 — the first bad record is final, whatever the receiving application did before: one genuine record
// A, then a record that must end the stream (attacker garbage of a genuine length, a replay of A, or a genuine
// but illegal handshake record from the key-holding peer: no renegotiation), then a genuine record B. The
// receiver may have shut down its own write side first (CloseWrite) or written data. Reads hand out A, then an
// error — never a silent (0, nil), never B — and every later Read and Write fails.
//
//verif:harness props=C05,C12 paths=60000 split reach=failed
func VerifHarness_C05_error_is_final() {
	kind := verifSplitInt("cipher", vcGCM, vcCBC)
	iv := verifNondetBytes("iv", 4)
	wt := &verifConn{}
	w := newEstablished(wt, kind, iv, true)
	a := verifNondetBytes("ptA", 1)
	b := verifNondetBytes("ptB", 1)
	verifAssume(a[0] != b[0])
	w.Write(a)
	la := len(wt.out)
	recA := append([]byte(nil), wt.out...)
	bad := verifSplitInt("badRecord", 0, 2)
	verifTag("badRecord", bad)
	var x []byte
	if bad == 2 {
		// a genuine record of the key-holding peer that no TLCP peer may send after the handshake: HelloRequest
		w.out.Lock()
		w.writeRecordLocked(recordTypeHandshake, []byte{0, 0, 0, 0})
		w.out.Unlock()
		x = append([]byte(nil), wt.out[la:]...)
	}
	start := len(wt.out)
	w.Write(b)
	recB := append([]byte(nil), wt.out[start:]...)
	switch bad {
	case 0: // injected: arbitrary bytes of a genuine record's length that are not the record the sender sent next
		x = verifNondetBytes("garbage", la)
		x[3], x[4] = byte((la-5)>>8), byte(la-5)
		if len(recB) == la {
			// (under E7, CBC = identity, the explicit IV carries no information: a record that differs from B only
			// in its IV field IS B, so the IV bytes are left out of the comparison for CBC)
			same := true
			for j := 0; j < la; j++ {
				if kind == vcCBC && j >= 5 && j < 5+16 {
					continue
				}
				same = verifAnd(same, x[j] == recB[j])
			}
			verifAssume(!same)
		}
	case 1: // replay of A
		x = recA
	}
	wire := append(append(append([]byte(nil), recA...), x...), recB...)
	if bad != 2 {
		vmac.recStarts = []int{la}
		vmac.wire = wire
	}
	rt := &verifConn{in: wire}
	r := newEstablished(rt, kind, iv, false)
	switch verifSplitInt("before", 0, 2) {
	case 1:
		verifAssert("C12.final.closeWriteOK", r.CloseWrite() == nil)
	case 2:
		n, err := r.Write([]byte{7})
		verifAssert("C12.final.writeOK", n == 1 && err == nil)
	}
	got := 0
	failed := false
	for i := 0; i < 4; i++ {
		buf := make([]byte, 2)
		n, err := r.Read(buf)
		if failed {
			verifAssert("C05.final.stickyError", n == 0 && err != nil)
			verifAssert("C12.final.stickyError", n == 0 && err != nil)
			continue
		}
		verifAssert("C05.final.onlyTheGenuinePrefix", got+n <= 1 && (n == 0 || buf[0] == a[0]))
		verifAssert("C12.final.nothingAfterTheFatalRecord", got+n <= 1 && (n == 0 || buf[0] == a[0]))
		got += n
		if err != nil {
			failed = true
			verifReach("failed")
			continue
		}
		verifAssert("C05.final.noSilentSkip", n > 0)
		verifAssert("C12.final.noSilentSkip", n > 0)
	}
	verifAssert("C05.final.errorReported", failed)
	verifAssert("C12.final.errorReported", failed)
	if failed {
		n, err := r.Write([]byte{9})
		verifAssert("C12.final.writeFailsAfterFatalError", n == 0 && err != nil)
	}
}
