//go:build verif

package tlcp

import "bytes"

// C04 — record protection of the stream stack against a reading of GB/T 38636 6.3.3 written here: what the
// real write path authenticates and how it builds nonces, and that the receiver rejects a genuine record whose
// type, version or length field was changed.
//
//verif:harness props=C04 paths=2000 reach=done
func VerifHarness_C04_record_layout() {
	kind := verifSplitInt("cipher", vcGCM, vcCBC)
	iv := verifNondetBytes("iv", 4)
	wt := &verifConn{}
	w := newEstablished(wt, kind, iv, true)
	// an arbitrary starting sequence number (below the wrap)
	seq0 := verifNondetBytes("seq", 8)
	verifAssume(seq0[7] < 250)
	copy(w.out.seq[:], seq0)
	k := 2
	for i := 0; i < k; i++ {
		pt := verifNondetBytes("pt", verifSplitInt("ptlen", 1, 3))
		start := len(wt.out)
		n, err := w.Write(pt)
		verifAssert("C04.record.written", n == len(pt) && err == nil)
		rec := wt.out[start:]
		want := append([]byte(nil), seq0...)
		want[7] += byte(i)
		hdr := []byte{byte(recordTypeApplicationData), byte(VersionTLCP >> 8), byte(VersionTLCP & 0xff), 0, byte(len(pt))}
		verifAssert("C04.record.header", len(rec) >= 5 && rec[0] == hdr[0] && rec[1] == hdr[1] && rec[2] == hdr[2] && int(rec[3])<<8|int(rec[4]) == len(rec)-5)
		if kind == vcGCM {
			verifAssert("C04.record.gcm.oneSeal", vae.n == i+1)
			verifAssert("C04.record.gcm.nonceIsIVThenSeq", bytes.Equal(vae.nonce[i], append(append([]byte(nil), iv...), want...)))
			verifAssert("C04.record.gcm.additionalData", bytes.Equal(vae.ad[i], append(append([]byte(nil), want...), hdr...)))
			verifAssert("C04.record.gcm.plaintext", bytes.Equal(vae.pt[i], pt))
			verifAssert("C04.record.gcm.explicitNonceOnWire", len(rec) == 5+8+len(pt)+16 && bytes.Equal(rec[5:13], want))
		} else {
			verifAssert("C04.record.cbc.macInput", vmac.n == i+1 && bytes.Equal(vmac.sent[i], append(append(append([]byte(nil), want...), hdr...), pt...)))
			body := rec[5:]
			verifAssert("C04.record.cbc.wholeBlocks", len(body)%16 == 0 && len(body) >= 16+len(pt)+32+1)
			if len(body) >= 16+len(pt)+32+1 {
				pad := int(body[len(body)-1])
				verifAssert("C04.record.cbc.paddingLength", 16+len(pt)+32+pad+1 == len(body) && pad < 16)
				for j := 0; j <= pad && j < len(body); j++ {
					verifAssert("C04.record.cbc.paddingBytes", int(body[len(body)-1-j]) == pad)
				}
				verifAssert("C04.record.cbc.plaintextThenMAC", bytes.Equal(body[16:16+len(pt)], pt))
			}
		}
	}
	// nonces / sequence numbers never repeat under one key: +1 per record
	last := append([]byte(nil), seq0...)
	last[7] += byte(k)
	verifAssert("C04.record.seqAdvancesByOne", bytes.Equal(w.out.seq[:], last))
	verifReach("done")
}

// A genuine record with exactly one header field changed (type, version or length byte, any other value) is
// never delivered.
//
//verif:harness props=C04,C05 paths=20000 split reach=rejected
func VerifHarness_C04_header_authenticated() {
	kind := verifSplitInt("cipher", vcGCM, vcCBC)
	iv := verifNondetBytes("iv", 4)
	wt := &verifConn{}
	w := newEstablished(wt, kind, iv, true)
	pt := verifNondetBytes("pt", 2)
	w.Write(pt)
	rec := append([]byte(nil), wt.out...)
	which := verifSplitInt("headerByte", 0, 4)
	var nv byte
	if which >= 3 {
		// length bytes are attacker-chosen lengths: case split (neighbours, zero, one block more, maximum)
		nv = []byte{rec[which] + 1, rec[which] - 1, 0, rec[which] + 16, 255}[verifSplitInt("newLength", 0, 4)]
	} else {
		nv = verifNondetByte("newValue")
	}
	verifAssume(nv != rec[which])
	rec[which] = nv
	if which >= 3 {
		// a changed length field changes how many bytes the receiver takes: supply enough arbitrary tail
		// (arbitrary bytes in the thorough tier; zeros in the quick tier, where every feasible padding length read
		// from an arbitrary tail would be its own path)
		tail := make([]byte, 20)
		if verifBound(0, 1) == 1 {
			tail = verifNondetBytes("tail", 20)
		}
		rec = append(rec, tail...)
	}
	vmac.wire = rec
	if which >= 3 {
		vmac.allWindows = true // after a changed length field the receiver looks for the MAC at other offsets
	} else {
		vmac.recStarts = []int{0} // the record keeps its shape: the MAC is where the sender put it
	}
	rt := &verifConn{in: rec}
	r := newEstablished(rt, kind, iv, false)
	buf := make([]byte, 4)
	n, err := r.Read(buf)
	// nothing is delivered, except in the self-similar corner where the rest of the datagram, re-parsed after a
	// shortened length field, is byte for byte the genuine record again: then exactly the genuine payload
	_ = err
	if which < 3 {
		verifAssert("C04.auth.modifiedHeaderNeverDelivered", n == 0)
		verifAssert("C05.auth.modifiedHeaderNeverDelivered", n == 0)
	} else {
		verifAssert("C04.auth.modifiedLengthDeliversNothingForged", n == 0 || (n == len(pt) && bytes.Equal(buf[:n], pt)))
		verifAssert("C05.auth.modifiedLengthDeliversNothingForged", n == 0 || (n == len(pt) && bytes.Equal(buf[:n], pt)))
	}
	verifReach("rejected")
}

// C04 — the record sequence number is a 64-bit big-endian counter: from ANY value below the wrap, one record
// advances it by exactly one, carries included (the value is MAC input / additional data / explicit nonce, so
// an independent implementation must be able to predict it for every record of a long connection, not only
// the first 255). One-step lemma on the real incSeq with a symbolic pre-state; the wrap itself must panic
// rather than reuse a nonce. The same lemma is C05's "no record is replayed" at the counter: a sequence number
// that repeats within a connection (a dropped carry) makes an old record authentic again at a later position,
// so the obligation is asserted under C05 as well (seeded change C05-g1).
//
//verif:harness props=C04,C05 paths=200 reach=done,wrap
func VerifHarness_C04_sequence_increment() {
	var hc halfConn
	s := verifNondetU64("seq")
	for i := 0; i < 8; i++ {
		hc.seq[i] = byte(s >> uint(56-8*i))
	}
	if s == ^uint64(0) {
		wrapped := false
		func() {
			defer func() {
				if recover() != nil {
					wrapped = true
				}
			}()
			hc.incSeq()
		}()
		verifReach("wrap")
		verifAssert("C04.seq.wrapIsRefused", wrapped)
		verifAssert("C05.seq.wrapIsRefused", wrapped)
		return
	}
	hc.incSeq()
	var got uint64
	for i := 0; i < 8; i++ {
		got = got<<8 | uint64(hc.seq[i])
	}
	verifAssert("C04.seq.incrementIsPlusOneBigEndian", got == s+1)
	verifAssert("C05.seq.neverRepeatsWithinAConnection", got == s+1)
	verifReach("done")
}
