//go:build verif

package tlcp

//verif:twin dtlcp

import (
	"bytes"
	"context"
	"errors"
)

// C10 / C07 — the server's resumption decision (real checkForResumption, cipherSuiteOk, selectCipherSuite) for
// an ARBITRARY ClientHello, configuration and cache content: a session is resumed only when the offered id is
// non-empty, the cache holds a session for it with the connection's version and a suite the client still
// offers AND the configuration still enables, and the current client-authentication policy allows it.

type verifOneCache struct {
	sess *SessionState
	key  string
	gets int
}

func (sc *verifOneCache) Get(k string) (*SessionState, bool) {
	sc.gets++
	sc.key = k
	if sc.sess == nil {
		return nil, false
	}
	return sc.sess, true
}
func (sc *verifOneCache) Put(k string, cs *SessionState) {}

func u16list(tag string, max int) []uint16 {
	var l []uint16
	for i := verifSplitInt(tag+".n", 0, max); i > 0; i-- {
		l = append(l, verifNondetU16(tag+".id"))
	}
	return l
}

//verif:harness props=C10,C07,C01 paths=200000 reach=resumed,full
func VerifHarness_C10_server_resumption_decision() {
	cache := &verifOneCache{}
	policy := ClientAuthType(verifSplitInt("clientAuth", 0, 5))
	cfg := &Config{ClientAuth: policy}
	if verifSplitInt("haveCache", 0, 1) == 1 {
		cfg.SessionCache = cache
	}
	if l := u16list("cfg.suites", 2); l != nil {
		cfg.CipherSuites = l
	}
	hasCerts := false
	if verifSplitInt("haveSession", 0, 1) == 1 {
		cache.sess = &SessionState{vers: verifNondetU16("sess.vers"), cipherSuite: verifNondetU16("sess.suite"), masterSecret: make([]byte, 48)}
		if verifSplitInt("sess.certs", 0, 1) == 1 {
			cache.sess.peerCertificates = append(cache.sess.peerCertificates, nil)
			hasCerts = true
		}
	}
	hello := &clientHelloMsg{cipherSuites: u16list("ch.suites", 2)}
	hello.sessionId = verifNondetBytes("ch.sid", 32*verifSplitInt("ch.sidlen", 0, 1))
	c := verifBareConn(cfg, false)
	c.vers = VersionTLCP
	hs := &serverHandshakeState{c: c, clientHello: hello, ecSignOk: true, ecDecryptOk: true}
	ok := hs.checkForResumption()
	if !ok {
		verifReach("full")
		return
	}
	verifReach("resumed")
	verifAssert("C10.decision.cacheConfiguredAndConsulted", cfg.SessionCache != nil && cache.gets == 1 && cache.sess != nil)
	verifAssert("C10.decision.nonEmptyId", len(hello.sessionId) > 0)
	if cache.sess == nil {
		return
	}
	s := cache.sess
	verifAssert("C10.decision.sameVersion", s.vers == VersionTLCP)
	offered, enabled := false, false
	for _, id := range hello.cipherSuites {
		if id == s.cipherSuite {
			offered = true
		}
	}
	for _, id := range cfg.cipherSuites() {
		if id == s.cipherSuite {
			enabled = true
		}
	}
	known := s.cipherSuite == ECC_SM4_GCM_SM3 || s.cipherSuite == ECC_SM4_CBC_SM3 || s.cipherSuite == ECDHE_SM4_GCM_SM3 || s.cipherSuite == ECDHE_SM4_CBC_SM3
	verifAssert("C10.decision.suiteStillOfferedByClient", offered)
	verifAssert("C10.decision.suiteStillEnabledByServer", enabled && known)
	// C01: an abbreviated handshake, too, runs under a suite that BOTH sides enable now
	verifAssert("C01.resumed.suiteEnabledByBothSides", offered && enabled && known)
	verifAssert("C10.decision.suiteInstalled", hs.suite != nil && hs.suite.id == s.cipherSuite)
	required := policy == RequireAnyClientCert || policy == RequireAndVerifyClientCert || policy == RequireAndVerifyAnyKeyUsageClientCert
	verifAssert("C07.decision.requiredCertificateInSession", !required || hasCerts)
	verifAssert("C07.decision.noCertificateUnderNoClientCert", !(policy == NoClientCert && hasCerts))
	// the lookup key is the hex form of the offered id (what createSessionState stores under)
	verifAssert("C10.decision.lookupKeyLength", len(cache.key) == 64)
	_ = bytes.Equal
}

// C12 — Handshake keeps reporting a failed handshake: the handshake function runs once, its error is stored
// and returned by every later Handshake call, Read and Write fail with it and deliver nothing; a successful
// handshake is not run again either.
//
//verif:harness props=C12 paths=200 reach=failed,succeeded
func VerifHarness_C12_handshake_sticky() {
	c := verifBareConn(&Config{}, verifSplitInt("role", 0, 1) == 1)
	runs := 0
	fail := verifSplitInt("handshakeFails", 0, 1) == 1
	failure := errors.New("verif: handshake failed")
	c.handshakeFn = func(ctx context.Context) error {
		runs++
		if fail {
			return failure
		}
		verifMarkComplete(c)
		return nil
	}
	e1 := c.Handshake()
	e2 := c.Handshake()
	verifAssert("C12.handshake.runsOnce", runs == 1)
	if fail {
		verifReach("failed")
		verifAssert("C12.handshake.errorStored", e1 == failure && e2 == failure)
		verifAssert("C12.handshake.notComplete", !c.handshakeComplete())
		n, err := c.Read(make([]byte, 1))
		verifAssert("C12.handshake.readFailsAfterFailedHandshake", n == 0 && err == failure)
		n, err = c.Write([]byte{1})
		verifAssert("C12.handshake.writeFailsAfterFailedHandshake", n == 0 && err == failure)
		verifAssert("C12.handshake.stillOnce", runs == 1)
	} else {
		verifReach("succeeded")
		verifAssert("C12.handshake.successReported", e1 == nil && e2 == nil && c.handshakeComplete())
	}
}
