//go:build verif

package tlcp

//verif:twin dtlcp

// C05 — extractPadding (tlcp/conn.go) is equivalent to the TLS 1.0 CBC padding specification for every
// payload: padding length byte pl, valid iff pl+1 <= len and the last pl+1 bytes all equal pl; on failure the
// padding is treated as length 0 so that the MAC decides (uniform bad_record_mac).
//
//verif:harness props=C05 paths=2000 unwind=400 reach=returned
func VerifHarness_C05_padding() {
	n := verifSplitInt("len", 0, verifBound(48, 300))
	p := verifNondetBytes("payload", n)
	rm, good := extractPadding(p)
	verifReach("returned")
	if n == 0 {
		verifAssert("C05.padding.empty", rm == 0 && good == 0)
		return
	}
	pl := int(p[n-1])
	valid := pl+1 <= n
	for i := 0; i < n && i < 256; i++ {
		valid = verifAnd(valid, verifImplies(i <= pl, int(p[n-1-i]) == pl))
	}
	verifAssert("C05.padding.goodIffValid", (good == 255) == valid && (good == 0) == !valid)
	verifAssert("C05.padding.toRemove", rm == verifIteInt(valid, pl+1, 1))
}
