//go:build verif

package tlcp

//verif:twin dtlcp

import (
	"crypto"
	"crypto/ecdsa"
	"io"
	"time"
)

// C01 — the negotiation kernel of both roles composed in one symbolic run (real makeClientHello,
// supportedVersionsFromMax / mutualVersion, processClientHello, server pickCipherSuite, pickProtocolVersion,
// processServerHello): for every pair of configurations both sides continue or the handshake fails, they
// continue exactly when a suite exists that both enabled and have keys for (and versions / ALPN are
// compatible), and then both hold the first such suite in the documented priority order, the same version and
// the same application protocol.
//
//verif:assume C01: the hello codecs are the identity on the negotiated fields (C14 checks them); session resumption is off in this harness (C10)

type verifKeyPair struct{ canSign, canDecrypt bool }

type verifSignerKey struct{}

func (verifSignerKey) Public() crypto.PublicKey { return &ecdsa.PublicKey{} }
func (verifSignerKey) Sign(r io.Reader, d []byte, o crypto.SignerOpts) ([]byte, error) {
	return nil, nil
}

type verifDecrypterKey struct{}

func (verifDecrypterKey) Public() crypto.PublicKey { return &ecdsa.PublicKey{} }
func (verifDecrypterKey) Decrypt(r io.Reader, m []byte, o crypto.DecrypterOpts) ([]byte, error) {
	return nil, nil
}

type verifBothKey struct {
	verifSignerKey
}

func (verifBothKey) Decrypt(r io.Reader, m []byte, o crypto.DecrypterOpts) ([]byte, error) {
	return nil, nil
}

type verifNoKey struct{}

// suiteList: nil (library default) or a list of 1..k ARBITRARY 16-bit ids (symbolic: every equality pattern
// with the four known suites and with each other, duplicates and unknown ids included)
func suiteList(tag string, k int) []uint16 {
	n := verifSplitInt(tag+".n", 0, k)
	if n == 0 {
		return nil
	}
	l := []uint16{}
	for i := 0; i < n; i++ {
		l = append(l, verifNondetU16(tag+".id"))
	}
	return l
}

func hasID(l []uint16, id uint16) bool {
	for _, x := range l {
		if x == id {
			return true
		}
	}
	return false
}

// alpnPair: representative (client, server) protocol lists: none, disjoint, overlapping (order matters),
// and the h2 / http/1.1 fallback
func alpnPair() (c, s []string) {
	switch verifSplitInt("alpn", 0, 7) {
	case 1:
		return []string{"a"}, nil
	case 2:
		return nil, []string{"a"}
	case 3:
		return []string{"a", "b"}, []string{"b", "a"}
	case 4:
		return []string{"a"}, []string{"b"}
	case 5:
		return []string{"http/1.1"}, []string{"h2"}
	case 6:
		return []string{"h2", "http/1.1"}, []string{"h2"}
	case 7:
		return []string{"b"}, []string{"c", "b", "a"}
	}
	return nil, nil
}

func hasProto(l []string, p string) bool {
	for _, x := range l {
		if x == p {
			return true
		}
	}
	return false
}

//verif:harness props=C01 paths=600000 tpaths=6000000 reach=agreed,failedBoth
func VerifHarness_C01_negotiate() {
	fixed := func() time.Time { return time.Time{} }
	ccfg := &Config{Rand: verifRandSrc{}, Time: fixed}
	scfg := &Config{Rand: verifRandSrc{}, Time: fixed}
	// lists of up to 2 arbitrary ids on the client side; the server side has up to 2 (quick) / 3 (thorough): three on
	// both sides did not finish in 7 minutes on 16 cores and is outside both tiers
	ccfg.CipherSuites = suiteList("client.suites", 2)
	scfg.CipherSuites = suiteList("server.suites", verifBound(2, 3))
	ncert := verifSplitInt("client.certs", 0, 2)
	for i := 0; i < ncert; i++ {
		ccfg.Certificates = append(ccfg.Certificates, Certificate{Certificate: [][]byte{{1}}, PrivateKey: verifBothKey{}})
	}
	// server key pairs: signing key may or may not sign, encryption key may or may not decrypt
	var sigKey, encKey crypto.PrivateKey = verifSignerKey{}, verifDecrypterKey{}
	canSign, canDec := true, true
	switch verifSplitInt("server.keys", 0, 2) {
	case 1:
		sigKey, canSign = verifNoKey{}, false
	case 2:
		encKey, canDec = verifNoKey{}, false
	}
	scfg.Certificates = []Certificate{{Certificate: [][]byte{{1}}, PrivateKey: sigKey}, {Certificate: [][]byte{{2}}, PrivateKey: encKey}}
	ccfg.NextProtos, scfg.NextProtos = alpnPair()
	ccfg.ServerName = "a.b"

	// ---- client: ClientHello
	// (the oracle works on a copy of the configured list taken BEFORE the call: building the hello must not write
	// into the caller's configuration, which clones share)
	var cl []uint16
	if ccfg.CipherSuites != nil {
		cl = append([]uint16{}, ccfg.CipherSuites...)
	}
	cc := verifBareConn(ccfg, true)
	hello, err := cc.makeClientHello()
	verifAssert("C01.negotiate.clientHelloBuilt", err == nil && hello != nil)
	verifAssert("C01.negotiate.configuredSuitesUntouched", (cl == nil) == (ccfg.CipherSuites == nil) && len(cl) == len(ccfg.CipherSuites))
	for i := 0; i < len(cl) && i < len(ccfg.CipherSuites); i++ {
		verifAssert("C01.negotiate.configuredSuitesUntouched", cl[i] == ccfg.CipherSuites[i])
	}
	// oracle: what the client may offer
	if cl == nil {
		cl = []uint16{ECC_SM4_GCM_SM3, ECC_SM4_CBC_SM3, ECDHE_SM4_GCM_SM3, ECDHE_SM4_CBC_SM3}
	}
	sl := scfg.CipherSuites
	if sl == nil {
		sl = []uint16{ECC_SM4_GCM_SM3, ECC_SM4_CBC_SM3, ECDHE_SM4_GCM_SM3, ECDHE_SM4_CBC_SM3}
	}
	var want uint16
	for _, id := range []uint16{ECC_SM4_GCM_SM3, ECC_SM4_CBC_SM3, ECDHE_SM4_GCM_SM3, ECDHE_SM4_CBC_SM3} {
		ecdhe := id == ECDHE_SM4_GCM_SM3 || id == ECDHE_SM4_CBC_SM3
		clientOK := hasID(cl, id) && (!ecdhe || ncert >= 2)
		serverOK := hasID(sl, id) && canSign && canDec
		if clientOK && serverOK {
			want = id
			break
		}
	}
	for _, id := range hello.cipherSuites {
		ecdhe := id == ECDHE_SM4_GCM_SM3 || id == ECDHE_SM4_CBC_SM3
		known := id == ECC_SM4_GCM_SM3 || id == ECC_SM4_CBC_SM3 || id == ECDHE_SM4_GCM_SM3 || id == ECDHE_SM4_CBC_SM3
		verifAssert("C01.negotiate.offersOnlyUsableSuites", hasID(cl, id) && known && (!ecdhe || ncert >= 2))
	}
	// ALPN oracle
	common := ""
	for _, s := range scfg.NextProtos {
		if hasProto(ccfg.NextProtos, s) {
			common = s
			break
		}
	}
	fallback := hasProto(scfg.NextProtos, "h2") && hasProto(ccfg.NextProtos, "http/1.1")
	alpnOK := len(scfg.NextProtos) == 0 || len(ccfg.NextProtos) == 0 || common != "" || fallback
	compatible := want != 0 && alpnOK

	// ---- server: version, ClientHello processing, suite choice (the wire is the identity on these fields)
	sc := verifBareConn(scfg, false)
	vers, ok := scfg.mutualVersion(roleServer, supportedVersionsFromMax(hello.vers))
	verifAssert("C01.negotiate.versionAgreedByServer", ok && vers == VersionTLCP)
	sc.vers, sc.haveVers = vers, true
	hs := &serverHandshakeState{c: sc, clientHello: hello}
	serr := hs.processClientHello()
	if serr == nil {
		serr = hs.pickCipherSuite()
	}
	if serr != nil {
		verifReach("failedBoth")
		verifAssert("C01.negotiate.failsOnlyWhenIncompatible", !compatible)
		return
	}
	verifAssert("C01.negotiate.succeedsOnlyWhenCompatible", compatible)
	hs.hello.cipherSuite = hs.suite.id
	verifAssert("C01.negotiate.serverPicksFirstInPriorityOrder", hs.suite.id == want)

	// ---- client: ServerHello processing
	cerr := cc.pickProtocolVersion(hs.hello)
	verifAssert("C01.negotiate.versionAgreedByClient", cerr == nil && cc.vers == sc.vers)
	chs := &clientHandshakeState{c: cc, serverHello: hs.hello, hello: hello}
	resumed, cerr := chs.processServerHello()
	verifAssert("C01.negotiate.clientAcceptsServerChoice", cerr == nil && !resumed)
	if cerr == nil {
		verifReach("agreed")
		verifAssert("C01.negotiate.sameSuite", cc.cipherSuite == sc.cipherSuite && cc.cipherSuite == want)
		verifAssert("C01.negotiate.sameALPN", cc.clientProtocol == sc.clientProtocol)
		p := cc.clientProtocol
		verifAssert("C01.negotiate.alpnFromBothLists", p == "" || (hasProto(ccfg.NextProtos, p) && hasProto(scfg.NextProtos, p)))
		verifAssert("C01.negotiate.alpnChosenWhenCommon", common == "" || p != "")
		verifAssert("C01.negotiate.sniRecorded", sc.serverName == ccfg.ServerName)
	}
}
