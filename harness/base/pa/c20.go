//go:build verif

package pa

import (
	"crypto/tls"
	"io"
	"net"
	"time"

	"gitee.com/Trisia/gotlcp/tlcp"
)

//verif:assume E1 (pa): the transport is a byte stream of case-split length with symbolic contents; every Read returns a case-split count 1..min(len(p),available); EOF after the last byte (io.Reader contract: never 0,nil for a non-empty buffer)

type verifAddr struct{}

func (verifAddr) Network() string { return "v" }
func (verifAddr) String() string  { return "peer" }

// segmented transport: each Read returns a case-split number of the next bytes
type verifConn struct {
	stream []byte
	pos    int
	reads  int
}

func (c *verifConn) Read(p []byte) (int, error) {
	c.reads++
	avail := len(c.stream) - c.pos
	if avail == 0 {
		return 0, io.EOF
	}
	max := avail
	if len(p) < max {
		max = len(p)
	}
	if max == 0 {
		return 0, nil
	}
	n := verifSplitInt("seg", 1, max)
	copy(p, c.stream[c.pos:c.pos+n])
	c.pos += n
	return n, nil
}
func (c *verifConn) Write(p []byte) (int, error)        { return len(p), nil }
func (c *verifConn) Close() error                       { return nil }
func (c *verifConn) LocalAddr() net.Addr                { return verifAddr{} }
func (c *verifConn) RemoteAddr() net.Addr               { return verifAddr{} }
func (c *verifConn) SetDeadline(t time.Time) error      { return nil }
func (c *verifConn) SetReadDeadline(t time.Time) error  { return nil }
func (c *verifConn) SetWriteDeadline(t time.Time) error { return nil }

// C20: routing by the major version byte of the first record, configuration errors, short streams;
// real detect / ReadFirstHeader / io.ReadFull / tlcp.Server / tls.Server.
//
//verif:harness props=C20 paths=40000 reach=tlcp,tls,none,short
func VerifHarness_C20_detect() {
	n := verifSplitInt("streamlen", 0, verifBound(7, 9))
	raw := &verifConn{stream: verifNondetBytes("stream", n)}
	ln := &listener{}
	haveTLCP := verifSplitInt("tlcpCfg", 0, 1) == 1
	haveTLS := verifSplitInt("tlsCfg", 0, 1) == 1
	if haveTLCP {
		ln.tlcpCfg = &tlcp.Config{}
	}
	if haveTLS {
		ln.tlsCfg = &tls.Config{}
	}
	c := NewProtocolSwitchServerConn(ln, raw)
	err := c.detect()
	verifAssert("C20.detect.noSpin", raw.reads <= 6)
	if n < 5 {
		verifReach("short")
		verifAssert("C20.detect.shortStreamIsError", err != nil && c.wrapped == nil)
		return
	}
	verifAssert("C20.detect.peeksExactlyFive", raw.pos == 5)
	major := raw.stream[1]
	switch w := c.wrapped.(type) {
	case *tlcp.Conn:
		verifReach("tlcp")
		verifAssert("C20.detect.tlcpIffMajor1", err == nil && major == 1 && haveTLCP)
	case *tls.Conn:
		verifReach("tls")
		verifAssert("C20.detect.tlsIffMajor3", err == nil && major == 3 && haveTLS)
	default:
		_ = w
		verifReach("none")
		verifAssert("C20.detect.errorWhenNotRouted", err != nil)
		verifAssert("C20.detect.routedWhenPossible", !(major == 1 && haveTLCP) && !(major == 3 && haveTLS))
		if major != 1 && major != 3 {
			verifAssert("C20.detect.unsupportedProtocolError", err == error(notSupportError))
		} else {
			verifAssert("C20.detect.configErrorIsNotUnsupported", err != error(notSupportError))
		}
	}
}

// C20: the peeked header is replayed ahead of the live stream for every buffer size and segmentation.
//
//verif:harness props=C20 paths=400000 tpaths=3000000 reach=done,eof
func VerifHarness_C20_replay() {
	n := verifSplitInt("streamlen", 5, verifBound(8, 9))
	stream := verifNondetBytes("stream", n)
	raw := &verifConn{stream: stream}
	p := &ProtocolDetectConn{Conn: raw}
	if err := p.ReadFirstHeader(); err != nil {
		verifAssert("C20.replay.headerReadOK", false)
		return
	}
	got := 0
	reads := verifBound(4, 5)
	for i := 0; i < reads; i++ {
		sz := verifSplitInt("bufsz", 0, 6)
		buf := make([]byte, sz)
		k, err := p.Read(buf)
		verifAssert("C20.replay.readCount", k >= 0 && k <= sz)
		for j := 0; j < k; j++ {
			verifAssert("C20.replay.inOrder", got+j < n && buf[j] == stream[got+j])
		}
		got += k
		if sz > 0 && err == nil {
			verifAssert("C20.replay.progress", k > 0)
		}
		if err != nil {
			verifReach("eof")
			verifAssert("C20.replay.eofOnlyAtEnd", got == n)
			break
		}
	}
	verifReach("done")
}
