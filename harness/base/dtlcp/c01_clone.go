//go:build verif

package dtlcp

import (
	"errors"
	"time"

	x509 "github.com/emmansun/gmsm/smx509"
)

// C01 — a configuration used through Clone() behaves like the original: every field of an arbitrary Config
// equals the corresponding field of its clone.
//
//verif:harness props=C01 paths=200 reach=done
func VerifHarness_C01_clone() {
	cfg := &Config{}
	// scalar and string fields: arbitrary values
	cfg.ServerName = string(verifNondetBytes("serverName", 2))
	cfg.ClientECDHEParamsAsVector = verifNondetBool("asVector")
	cfg.ClientAuth = ClientAuthType(verifNondetInt("clientAuth"))
	cfg.InsecureSkipVerify = verifNondetBool("skipVerify")
	cfg.MinVersion = verifNondetU16("minVersion")
	cfg.MaxVersion = verifNondetU16("maxVersion")
	cfg.EnableDebug = verifNondetBool("debug")
	// slices: arbitrary contents, identity of length and elements
	cfg.CipherSuites = []uint16{verifNondetU16("suite"), verifNondetU16("suite")}
	cfg.NextProtos = []string{string(verifNondetBytes("proto", 1))}
	cfg.CurvePreferences = []CurveID{CurveID(verifNondetU16("curve"))}
	cfg.Certificates = []Certificate{{Certificate: [][]byte{verifNondetBytes("cert", 1)}}}
	cfg.TrustedCAIndications = []TrustedAuthority{{IdentifierType: verifNondetByte("taType")}}
	// pointers and interfaces: identity
	roots, cas := &x509.CertPool{}, &x509.CertPool{}
	cfg.RootCAs, cfg.ClientCAs = roots, cas
	cache := NewLRUSessionCache(1)
	cfg.SessionCache = cache
	cfg.Rand = verifRandSrc{}
	// callbacks: each returns its own marker, so a swapped or dropped callback is visible
	cfg.Time = func() time.Time { return time.Time{}.Add(7) }
	cfg.GetCertificate = func(*ClientHelloInfo) (*Certificate, error) { return nil, errors.New("1") }
	cfg.GetKECertificate = func(*ClientHelloInfo) (*Certificate, error) { return nil, errors.New("2") }
	cfg.GetClientCertificate = func(*CertificateRequestInfo) (*Certificate, error) { return nil, errors.New("3") }
	cfg.GetClientKECertificate = func(*CertificateRequestInfo) (*Certificate, error) { return nil, errors.New("4") }
	cfg.GetConfigForClient = func(*ClientHelloInfo) (*Config, error) { return nil, errors.New("5") }
	cfg.VerifyPeerCertificate = func([][]byte, [][]*x509.Certificate) error { return errors.New("6") }
	cfg.VerifyConnection = func(ConnectionState) error { return errors.New("7") }
	alerted := 0
	cfg.OnAlert = func(code uint8, c *Conn) { alerted += int(code) }
	cfg.PMTU = verifNondetInt("pmtu")
	cfg.CookieSecret = verifNondetBytes("cookieSecret", 2)
	cfg.ReplayWindow = verifNondetInt("replayWindow")
	cfg.InitialRetransmitTimeout = time.Duration(verifNondetU64("initialRTO"))
	cfg.MaxRetransmitTimeout = time.Duration(verifNondetU64("maxRTO"))
	cl := cfg.Clone()
	verifAssert("C01.clone.notNil", cl != nil && cl != cfg)
	verifAssert("C01.clone.scalars", cl.ServerName == cfg.ServerName && cl.ClientECDHEParamsAsVector == cfg.ClientECDHEParamsAsVector &&
		cl.ClientAuth == cfg.ClientAuth && cl.InsecureSkipVerify == cfg.InsecureSkipVerify && cl.MinVersion == cfg.MinVersion &&
		cl.MaxVersion == cfg.MaxVersion && cl.EnableDebug == cfg.EnableDebug)
	verifAssert("C01.clone.suites", len(cl.CipherSuites) == 2 && cl.CipherSuites[0] == cfg.CipherSuites[0] && cl.CipherSuites[1] == cfg.CipherSuites[1])
	verifAssert("C01.clone.protos", len(cl.NextProtos) == 1 && cl.NextProtos[0] == cfg.NextProtos[0])
	verifAssert("C01.clone.curves", len(cl.CurvePreferences) == 1 && cl.CurvePreferences[0] == cfg.CurvePreferences[0])
	verifAssert("C01.clone.certificates", len(cl.Certificates) == 1 && len(cl.Certificates[0].Certificate) == 1 && cl.Certificates[0].Certificate[0][0] == cfg.Certificates[0].Certificate[0][0])
	verifAssert("C01.clone.trustedCAs", len(cl.TrustedCAIndications) == 1 && cl.TrustedCAIndications[0].IdentifierType == cfg.TrustedCAIndications[0].IdentifierType)
	verifAssert("C01.clone.pools", cl.RootCAs == roots && cl.ClientCAs == cas)
	verifAssert("C01.clone.cache", cl.SessionCache == cache)
	verifAssert("C01.clone.rand", cl.Rand != nil)
	verifAssert("C01.clone.time", cl.Time != nil && cl.Time().Equal(time.Time{}.Add(7)))
	marker := func(err error) string {
		if err == nil {
			return ""
		}
		return err.Error()
	}
	verifAssert("C01.clone.callbacksPresent", cl.GetCertificate != nil && cl.GetKECertificate != nil && cl.GetClientCertificate != nil &&
		cl.GetClientKECertificate != nil && cl.GetConfigForClient != nil && cl.VerifyPeerCertificate != nil && cl.VerifyConnection != nil && cl.OnAlert != nil)
	_, e1 := cl.GetCertificate(nil)
	_, e2 := cl.GetKECertificate(nil)
	_, e3 := cl.GetClientCertificate(nil)
	_, e4 := cl.GetClientKECertificate(nil)
	_, e5 := cl.GetConfigForClient(nil)
	e6 := cl.VerifyPeerCertificate(nil, nil)
	e7 := cl.VerifyConnection(ConnectionState{})
	verifAssert("C01.clone.callbacksRight", marker(e1) == "1" && marker(e2) == "2" && marker(e3) == "3" && marker(e4) == "4" && marker(e5) == "5" && marker(e6) == "6" && marker(e7) == "7")
	cl.OnAlert(3, nil)
	verifAssert("C01.clone.onAlert", alerted == 3)
	verifAssert("C01.clone.stackSpecific", cl.PMTU == cfg.PMTU && len(cl.CookieSecret) == 2 && cl.CookieSecret[0] == cfg.CookieSecret[0] && cl.CookieSecret[1] == cfg.CookieSecret[1] &&
		cl.ReplayWindow == cfg.ReplayWindow && cl.InitialRetransmitTimeout == cfg.InitialRetransmitTimeout && cl.MaxRetransmitTimeout == cfg.MaxRetransmitTimeout)
	verifReach("done")
}
