//go:build verif

package dtlcp

// record header length of this stack (where the MAC sits inside an attacker record)
const vmacRecordHeaderLen = 13

const (
	vcGCM = 1
	vcCBC = 2
)

// newEstablishedD builds a datagram connection in the state the handshake leaves it in: version fixed,
// handshake finished, epoch 1 in both directions, cipher of the given kind installed, fresh replay window.
func newEstablishedD(t *verifPConn, kind int, iv []byte, sender bool, window int) *Conn {
	c := &Conn{pconn: t, remoteAddr: verifAddr{}, config: &Config{Rand: verifRandSrc{}, ReplayWindow: window}}
	c.vers = VersionTLCP
	c.haveVers = true
	c.in.version, c.out.version = VersionTLCP, VersionTLCP
	c.hsState.Store(int32(stateFinished))
	c.handshakes = 1
	c.writeEpoch, c.readEpoch = 1, 1
	w := defaultReplayWindowSize
	if window > 0 {
		w = window
	}
	c.replayWindow = newReplayWindow(w)
	switch kind {
	case vcGCM:
		a := &prefixNonceAEAD{aead: verifInnerAEAD{}}
		copy(a.nonce[:], iv)
		b := &prefixNonceAEAD{aead: verifInnerAEAD{}}
		copy(b.nonce[:], iv)
		c.in.cipher, c.out.cipher = a, b
	case vcCBC:
		c.in.cipher, c.out.cipher = &verifCBC{}, &verifCBC{}
		c.in.mac, c.out.mac = &verifMAC{sender: sender}, &verifMAC{sender: sender}
	}
	return c
}
