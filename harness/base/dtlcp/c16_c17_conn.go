//go:build verif

package dtlcp

// C16 — an established DTLCP connection (epoch 1, ideal AEAD or CBC + unforgeable MAC): the sender's real
// write path produces K genuine application records; an attacker delivers up to M datagrams, each either a
// genuine one (any order, duplicates allowed) or an arbitrary forgery of a genuine length with an
// attacker-chosen epoch; the receiver calls ReadFrom (mode 0) or Read (mode 1).
//
//verif:harness props=C16,C09 paths=600000 tpaths=6000000 split spin=C09.progress.readLoopTerminates reach=delivered,dropped
func VerifHarness_C16_conn() {
	kind := verifSplitInt("cipher", vcGCM, vcCBC)
	mode := verifSplitInt("readPath", 0, 1)
	verifTag("readPath", mode)
	iv := verifNondetBytes("iv", 4)
	wt := &verifPConn{}
	w := newEstablishedD(wt, kind, iv, true, 0)
	k := 2
	var pt [2][]byte
	for i := 0; i < k; i++ {
		pt[i] = verifNondetBytes("pt", 1)
		w.out.Lock()
		n, err := w.writeRecordLocked(recordTypeApplicationData, pt[i])
		w.out.Unlock()
		verifAssert("C15.conn.oneDatagramPerRecord", n == 1 && err == nil && len(wt.sent) == i+1)
	}
	verifAssume(pt[0][0] != pt[1][0]) // distinguishable payloads, so that "at most once" is observable
	maxd := verifBound(3, 4)
	if kind == vcCBC {
		maxd = 2 // CBC: every feasible padding length of a forgery is its own path (3 deliveries with several forgeries did not finish in 7 minutes on 16 cores: outside both tiers)
	}
	m := verifSplitInt("deliveries", 1, maxd)
	rt := &verifPConn{}
	forged := false
	genuineAfterForgery := -1
	var order [4]int
	for i := 0; i < m; i++ {
		ch := verifSplitInt("what", 0, k) // 0..k-1: genuine record i; k: forgery
		order[i] = ch
		if ch < k {
			rt.in = append(rt.in, wt.sent[ch])
			if forged && genuineAfterForgery < 0 {
				genuineAfterForgery = ch
			}
		} else {
			f := verifNondetBytes("forged", len(wt.sent[0]))
			l := len(f) - 13
			f[11], f[12] = byte(l>>8), byte(l)
			e := verifSplitInt("forgedEpoch", 0, 2)
			f[3], f[4] = 0, byte(e)
			for j := 0; j < k; j++ {
				// a forgery differs from every genuine datagram; under E7 (CBC = identity) the explicit IV
				// carries no information, so a datagram that differs from a genuine one ONLY in the IV field is
				// that genuine record, not a forgery
				if kind == vcCBC {
					verifAssume(!(verifBytesEqual(f[:13], wt.sent[j][:13]) && verifBytesEqual(f[29:], wt.sent[j][29:])))
				} else {
					verifAssume(!verifBytesEqual(f, wt.sent[j]))
				}
			}
			vmac.recStarts = append(vmac.recStarts, len(vmac.wire))
			vmac.wire = append(vmac.wire, f...)
			rt.in = append(rt.in, f)
			if forged && kind == vcCBC {
				verifAssume(false) // CBC: at most one forgery per run (both tiers)
			}
			forged = true
		}
	}
	verifTag("forged", map[bool]int{false: 0, true: 1}[forged])
	r := newEstablishedD(rt, kind, iv, false, 0)
	var seen [2]int
	for i := 0; i < m+1; i++ {
		buf := make([]byte, 4)
		var n int
		var err error
		if mode == 0 {
			n, _, err = r.ReadFrom(buf)
		} else {
			n, err = r.Read(buf)
		}
		if err != nil {
			break
		}
		verifReach("delivered")
		verifAssert("C16.conn.onlyGenuinePayloads", n == 1 && (buf[0] == pt[0][0] || buf[0] == pt[1][0]))
		if n == 1 && buf[0] == pt[0][0] {
			seen[0]++
		} else if n == 1 && buf[0] == pt[1][0] {
			seen[1]++
		}
	}
	verifAssert("C16.conn.atMostOnce", seen[0] <= 1 && seen[1] <= 1)
	// every genuine record that was delivered to the transport (first arrival) is handed over, unless a
	// forgery legitimately could not be told apart (it cannot: forgeries never authenticate)
	for j := 0; j < k; j++ {
		arrived := false
		for i := 0; i < m; i++ {
			if order[i] == j {
				arrived = true
			}
		}
		if arrived {
			verifAssert("C16.conn.genuineAcceptedFirstTime", seen[j] == 1)
		} else {
			verifAssert("C16.conn.neverInvented", seen[j] == 0)
			verifReach("dropped")
		}
	}
}

// C09 (memory, datagram stack): after the handshake, handshake records from the key-holding peer
// (retransmissions or a flood) are not accumulated in the handshake buffer.
//
//verif:harness props=C09 paths=20000 reach=done
func VerifHarness_C09_dtlcp_posthandshake_records() {
	kind := verifSplitInt("cipher", vcGCM, vcCBC)
	mode := verifSplitInt("readPath", 0, 1)
	iv := verifNondetBytes("iv", 4)
	wt := &verifPConn{}
	w := newEstablishedD(wt, kind, iv, true, 0)
	k := verifSplitInt("handshakeRecords", 1, 2)
	w.out.Lock()
	for i := 0; i < k; i++ {
		w.writeRecordLocked(recordTypeHandshake, verifNondetBytes("hs", verifSplitInt("hslen", 1, 5)))
	}
	w.writeRecordLocked(recordTypeApplicationData, []byte{7})
	w.out.Unlock()
	rt := &verifPConn{in: wt.sent}
	r := newEstablishedD(rt, kind, iv, false, 0)
	buf := make([]byte, 4)
	var err error
	if mode == 0 {
		_, _, err = r.ReadFrom(buf)
	} else {
		_, err = r.Read(buf)
	}
	verifAssert("C09.memory.dtlcpNoHandshakeBytesPileUp", err != nil || r.handBuf.Len() == 0)
	verifReach("done")
}

// C17 — the sender side: real writeHandshakeRecord with an arbitrary small PMTU splits a message into
// fragments that keep type, total length and message sequence, are contiguous from 0, cover the body exactly,
// each fit the PMTU, and the transcript receives the unfragmented encoding.
//
//verif:harness props=C17 paths=20000 reach=fragmented,whole
func VerifHarness_C17_split() {
	pmtu := verifSplitInt("pmtu", 26, verifBound(34, 40)) // 13 record + 12 handshake header + >= 1 body byte
	t := &verifPConn{}
	c := newSizeConn(t, pmtu, 0)
	c.hsState.Store(int32(statePreparing))
	c.writeEpoch = 0
	bl := verifSplitInt("bodylen", 0, verifBound(12, 20))
	m := &finishedMsg{verifyData: verifNondetBytes("body", bl)}
	m.messageSeq = verifNondetU16("msgSeq")
	tr := &verifRecHash{}
	_, err := c.writeHandshakeRecord(m, tr)
	verifAssert("C17.split.written", err == nil)
	whole, _ := (&finishedMsg{verifyData: m.verifyData, messageSeq: m.messageSeq}).marshal()
	verifAssert("C17.split.transcriptUnfragmented", len(tr.buf) == len(whole))
	for i := 0; i < len(whole) && i < len(tr.buf); i++ {
		verifAssert("C17.split.transcriptBytes", tr.buf[i] == whole[i])
	}
	next := 0
	for i := 0; i < len(t.sent); i++ {
		d := t.sent[i]
		verifAssert("C17.split.fragmentFitsPMTU", len(d) <= pmtu && len(d) >= 25)
		if len(d) < 25 {
			return
		}
		h := d[13:]
		total := int(h[1])<<16 | int(h[2])<<8 | int(h[3])
		off := int(h[6])<<16 | int(h[7])<<8 | int(h[8])
		fl := int(h[9])<<16 | int(h[10])<<8 | int(h[11])
		verifAssert("C17.split.headerKept", h[0] == typeFinished && total == bl && uint16(h[4])<<8|uint16(h[5]) == m.messageSeq)
		verifAssert("C17.split.contiguous", off == next && fl == len(h)-12 && (fl > 0 || bl == 0))
		for j := 0; j < fl && off+j < bl; j++ {
			verifAssert("C17.split.bodyBytes", h[12+j] == m.verifyData[off+j])
		}
		next = off + fl
	}
	verifAssert("C17.split.coversBody", next == bl)
	if len(t.sent) > 1 {
		verifReach("fragmented")
	} else {
		verifReach("whole")
	}
}

type verifRecHash struct{ buf []byte }

func (h *verifRecHash) Write(p []byte) (int, error) { h.buf = append(h.buf, p...); return len(p), nil }
func (h *verifRecHash) Sum() []byte               { return nil }
func (h *verifRecHash) Reset()                      { h.buf = nil }
func (h *verifRecHash) Size() int                   { return 32 }
func (h *verifRecHash) BlockSize() int              { return 64 }

// C17 — the receiver side: the fragments the real sender produces, delivered in an arbitrary order with an
// optional duplicate, are reassembled by the real readHandshake into exactly the unfragmented encoding, which
// is what the transcript receives.
//
//verif:harness props=C17,C09,C19 paths=60000 reach=reassembled
func VerifHarness_C17_reassemble() {
	pmtu := verifSplitInt("pmtu", 27, 29)
	st := &verifPConn{}
	s := newSizeConn(st, pmtu, 0)
	s.hsState.Store(int32(statePreparing))
	s.writeEpoch = 0
	bl := verifSplitInt("bodylen", 1, verifBound(6, 9))
	m := &finishedMsg{verifyData: verifNondetBytes("body", bl)}
	s.writeHandshakeRecord(m, nil)
	whole, _ := (&finishedMsg{verifyData: m.verifyData}).marshal()
	k := len(st.sent)
	// arbitrary delivery order: a permutation chosen by successive case splits, plus one duplicate
	rt := &verifPConn{}
	var used [8]bool
	for i := 0; i < k; i++ {
		j := verifSplitInt("pick", 0, k-1)
		verifAssume(!used[j])
		used[j] = true
		rt.in = append(rt.in, st.sent[j])
		if i == 0 && verifSplitInt("duplicateFirst", 0, 1) == 1 {
			rt.in = append(rt.in, st.sent[j])
		}
	}
	r := newSizeConn(rt, pmtu, 0)
	r.hsState.Store(int32(statePreparing))
	r.readEpoch = 0
	r.haveVers = true
	r.replayWindow = newReplayWindow(64)
	r.pendingFragments = map[uint16]*fragmentBuffer{}
	tr := &verifRecHash{}
	msg, err := r.readHandshake(tr)
	verifAssert("C17.reassemble.succeeds", err == nil && msg != nil)
	// C19: datagrams of one message reordered (or one duplicated) by the network are not a fault the handshake may die of
	verifAssert("C19.reorder.fragmentsInAnyOrderReassemble", err == nil && msg != nil)
	if err != nil {
		return
	}
	verifReach("reassembled")
	fm, ok := msg.(*finishedMsg)
	verifAssert("C17.reassemble.type", ok)
	if ok {
		verifAssert("C17.reassemble.bodyLen", len(fm.verifyData) == bl)
		for i := 0; i < bl && i < len(fm.verifyData); i++ {
			verifAssert("C17.reassemble.bodyBytes", fm.verifyData[i] == m.verifyData[i])
		}
	}
	verifAssert("C17.reassemble.transcriptLen", len(tr.buf) == len(whole))
	for i := 0; i < len(whole) && i < len(tr.buf); i++ {
		verifAssert("C17.reassemble.transcriptUnfragmented", tr.buf[i] == whole[i])
	}
	verifAssert("C17.reassemble.pendingReleased", len(r.pendingFragments) == 0)
}

// C17 / C09 — hostile fragment streams against the real readHandshake: an announced length above the 64 KiB
// limit is refused whatever the fragment size, an out-of-range fragment is refused, no panic; the number of
// pending reassembly buffers after one call is bounded.
//
//verif:harness props=C17,C09 paths=60000 spin=C09.progress.readHandshakeTerminates reach=error,message
func VerifHarness_C17_hostile_fragments() {
	rt := &verifPConn{}
	nd := verifSplitInt("datagrams", 1, 2)
	var announced [2]int
	for i := 0; i < nd; i++ {
		fl := verifSplitInt("fraglen", 0, 3)
		d := verifNondetBytes("dgram", 13+12+fl)
		d[0], d[1], d[2], d[3], d[4] = byte(recordTypeHandshake), 1, 1, 0, 0
		d[5], d[6], d[7], d[8], d[9], d[10] = 0, 0, 0, 0, 0, byte(i)
		d[11], d[12] = 0, byte(12+fl)
		// announced total length: case split over the values around every limit
		tl := []int{0, 1, 3, 4, 65536, 65537, 1<<24 - 1}[verifSplitInt("announced", 0, 6)]
		announced[i] = tl
		d[13+1], d[13+2], d[13+3] = byte(tl>>16), byte(tl>>8), byte(tl)
		d[13+9], d[13+10], d[13+11] = 0, 0, byte(fl)
		rt.in = append(rt.in, d)
	}
	r := newSizeConn(rt, 1400, 0)
	r.hsState.Store(int32(statePreparing))
	r.readEpoch = 0
	r.haveVers = true
	r.replayWindow = newReplayWindow(64)
	r.pendingFragments = map[uint16]*fragmentBuffer{}
	msg, err := r.readHandshake(nil)
	if err != nil {
		verifReach("error")
	} else {
		verifReach("message")
		verifAssert("C17.hostile.messageNonNil", msg != nil)
	}
	verifAssert("C09.fragments.pendingBounded", len(r.pendingFragments) <= 2)
	for _, fb := range r.pendingFragments {
		verifAssert("C09.fragments.bufferWithinLimit", fb.numBytes <= 65536 && len(fb.data) <= 65536)
	}
	if announced[0] > 65536 {
		verifAssert("C17.hostile.oversizeRefused", err != nil && len(r.pendingFragments) == 0)
	}
}

func verifBytesEqual(a, b []byte) bool {
	if len(a) != len(b) {
		return false
	}
	eq := true
	for i := range a {
		eq = verifAnd(eq, a[i] == b[i])
	}
	return eq
}

// C08 / C03 / C09 / C12 — the datagram record layer before the handshake has completed (epoch 0, no cipher):
// one arbitrary datagram holding up to two records whose length fields are attacker-chosen (consistent, short
// or lying by up to 14 bytes): no panic, no application data accepted, a ChangeCipherSpec takes effect only
// when expected and well formed, errors are latched.
//
//verif:harness props=C08,C03,C09,C12,C19 paths=400000 spin=C09.progress.dtlcpRecordLoopTerminates reach=accepted,ccs,error
func VerifHarness_C08_dtlcp_record_prehandshake() {
	l1 := verifSplitInt("reclen1", 0, 3)
	d := verifNondetBytes("rec1", 13+l1)
	d[11], d[12] = 0, byte(l1)
	if verifSplitInt("secondRecord", 0, 1) == 1 {
		l2 := verifSplitInt("reclen2", 0, 2)
		r2 := verifNondetBytes("rec2", 13+l2)
		r2[11], r2[12] = 0, byte(l2)
		d = append(d, r2...)
	}
	// the first record's length field: honest, or lying by 1, by a record header, by one more, or absurdly
	d[12] = byte([]int{l1, l1 + 1, l1 + 13, l1 + 14, 255}[verifSplitInt("claimedLen", 0, 4)])
	// the datagram arrives whole, one byte short, cut inside the header, or empty
	switch verifSplitInt("cut", 0, 3) {
	case 1:
		d = d[:len(d)-1]
	case 2:
		d = d[:12]
	case 3:
		d = d[:0]
	}
	// epoch of the first record: 0 (current) or 1 (ahead)
	if len(d) >= 5 {
		d[3], d[4] = 0, byte(verifSplitInt("epoch", 0, 1))
	}
	t := &verifPConn{in: [][]byte{d}}
	c := &Conn{pconn: t, remoteAddr: verifAddr{}, config: &Config{Rand: verifRandSrc{}}}
	c.vers = VersionTLCP
	c.haveVers = verifSplitInt("haveVers", 0, 1) == 1
	c.replayWindow = newReplayWindow(64)
	c.readEpoch = uint16(verifSplitInt("readEpoch", 0, 1)) // 1: a record of epoch 0 is stale
	expectCCS := verifSplitInt("expectCCS", 0, 1) == 1
	if expectCCS {
		c.in.nextCipher = &verifCBC{}
		c.in.nextMac = &verifMAC{}
	}
	err := c.readRecordOrCCS(expectCCS)
	if err == nil {
		verifReach("accepted")
		verifAssert("C12.early.dtlcpNoAppDataBeforeHandshake", len(c.readBuf) == 0)
		verifAssert("C19.nodata.noApplicationDataBeforeFinished", len(c.readBuf) == 0)
		if c.in.cipher != nil {
			verifReach("ccs")
			verifAssert("C03.ccs.dtlcpOnlyWhenExpected", expectCCS)
		}
	} else {
		verifReach("error")
		verifAssert("C12.early.dtlcpNothingDelivered", len(c.readBuf) == 0)
	}
	verifAssert("C08.record.dtlcpNoCipherWithoutExpectedCCS", expectCCS || c.in.cipher == nil)
}

// C19 — reordering inside the client's second flight: the datagram carrying ChangeCipherSpec + Finished
// overtakes the datagram carrying ClientKeyExchange. A datagram endpoint must not treat that as fatal (the
// overtaken datagram, or its retransmission, is still to come). (Found as F11 — the server latched unexpected_message — and repaired in
// /repo 4a06f1c; the harness stays as a regression lemma.)
//
//verif:harness props=C19 paths=200 reach=read
func VerifHarness_C19_reordered_flight() {
	ccs := []byte{byte(recordTypeChangeCipherSpec), 1, 1, 0, 0, 0, 0, 0, 0, 0, 3, 0, 1, 1}
	fin := verifNondetBytes("finishedRecord", 13+4)
	fin[0], fin[1], fin[2], fin[3], fin[4] = byte(recordTypeHandshake), 1, 1, 0, 1
	fin[11], fin[12] = 0, 4
	d := append(append([]byte(nil), ccs...), fin...)
	t := &verifPConn{in: [][]byte{d}}
	c := &Conn{pconn: t, remoteAddr: verifAddr{}, config: &Config{Rand: verifRandSrc{}}}
	c.vers, c.haveVers = VersionTLCP, true
	c.hsState.Store(int32(stateWaiting))
	c.replayWindow = newReplayWindow(64)
	// the server is waiting for ClientKeyExchange: keys are not established yet, nothing is buffered
	err := c.readRecordOrCCS(false)
	verifReach("read")
	verifTag("reordered", 1)
	verifAssert("C19.reorder.overtakingCCSIsNotFatal", c.in.err == nil || isTimeout(err))
}

func isTimeout(err error) bool {
	if err == nil {
		return false
	}
	_, ok := err.(verifTimeout)
	return ok
}

// C10 / C01 — the server's resumption flight as the honest DTLCP server sends it: ServerHello,
// ChangeCipherSpec and Finished in ONE datagram. The client, reading the ServerHello (nothing negotiated yet,
// version not yet fixed), must not fail on the records that follow it in the same datagram.
//
//verif:harness props=C10,C01 paths=200 reach=read
func VerifHarness_C10_dtlcp_resumption_flight() {
	sh := verifNondetBytes("serverHelloRecord", 13+16)
	sh[0], sh[1], sh[2], sh[3], sh[4] = byte(recordTypeHandshake), 1, 1, 0, 0
	sh[5], sh[6], sh[7], sh[8], sh[9], sh[10] = 0, 0, 0, 0, 0, 0
	sh[11], sh[12] = 0, 16
	ccs := []byte{byte(recordTypeChangeCipherSpec), 1, 1, 0, 0, 0, 0, 0, 0, 0, 1, 0, 1, 1}
	fin := verifNondetBytes("finishedRecord", 13+4)
	fin[0], fin[1], fin[2], fin[3], fin[4] = byte(recordTypeHandshake), 1, 1, 0, 1
	fin[5], fin[6], fin[7], fin[8], fin[9], fin[10] = 0, 0, 0, 0, 0, 0
	fin[11], fin[12] = 0, 4
	d := append(append(append([]byte(nil), sh...), ccs...), fin...)
	t := &verifPConn{in: [][]byte{d}}
	c := &Conn{pconn: t, remoteAddr: verifAddr{}, config: &Config{Rand: verifRandSrc{}}, isClient: true}
	c.hsState.Store(int32(stateWaiting))
	c.replayWindow = newReplayWindow(64)
	err := c.readRecordOrCCS(false)
	verifReach("read")
	verifTag("resumptionFlight", 1)
	verifAssert("C10.dtlcp.resumptionFlightIsReadable", err == nil && c.in.err == nil && c.handBuf.Len() == 16)
	// C01: two honest endpoints with session caches complete their second handshake too
	verifAssert("C01.dtlcp.resumptionFlightIsReadable", err == nil && c.in.err == nil && c.handBuf.Len() == 16)
}

// C09 / C17 — a flood of one-byte fragments, each opening a reassembly buffer for a new message sequence
// number and announcing a 60000-byte message: one readHandshake call stops after maxHandshakeFragments
// iterations and holds at most that many pending buffers.
//
//verif:harness props=C09,C17 paths=100 unwind=600 spin=C09.progress.fragmentFloodTerminates reach=stopped
func VerifHarness_C09_fragment_flood() {
	rt := &verifPConn{}
	const k = 300
	for i := 0; i < k; i++ {
		d := make([]byte, 13+12+1)
		d[0], d[1], d[2] = byte(recordTypeHandshake), 1, 1
		d[9], d[10] = byte(i>>8), byte(i)
		d[12] = 13
		h := d[13:]
		h[0] = typeFinished
		h[1], h[2], h[3] = 0, 0xEA, 0x60 // 60000
		h[4], h[5] = byte(i>>8), byte(i) // a new message sequence number every time
		h[11] = 1                        // fragment length 1 at offset 0
		rt.in = append(rt.in, d)
	}
	r := newSizeConn(rt, 1400, 0)
	r.hsState.Store(int32(statePreparing))
	r.readEpoch = 0
	r.haveVers = true
	r.replayWindow = newReplayWindow(64)
	r.pendingFragments = map[uint16]*fragmentBuffer{}
	_, err := r.readHandshake(nil)
	verifReach("stopped")
	verifAssert("C09.fragments.floodIsCutOff", err != nil && rt.pos <= maxHandshakeFragments+1)
	verifAssert("C09.fragments.pendingBuffersBounded", len(r.pendingFragments) <= maxHandshakeFragments)
	// C17: a bounded amount of pending fragment state under a hostile stream
	verifAssert("C17.fragments.floodIsCutOff", err != nil && rt.pos <= maxHandshakeFragments+1)
	verifAssert("C17.fragments.pendingStateBounded", len(r.pendingFragments) <= maxHandshakeFragments)
}

// C09 / C16 — one malformed datagram (arbitrary header: any version, lying length field, 13..20 bytes) on an
// established connection, through Read and through ReadFrom: no panic, and the genuine record that follows is
// delivered.
//
//verif:harness props=C09,C16 paths=60000 reach=delivered
func VerifHarness_C16_malformed_datagram() {
	mode := verifSplitInt("readPath", 0, 1)
	iv := verifNondetBytes("iv", 4)
	wt := &verifPConn{}
	w := newEstablishedD(wt, vcGCM, iv, true, 0)
	pt := verifNondetBytes("pt", 1)
	w.out.Lock()
	w.writeRecordLocked(recordTypeApplicationData, pt)
	w.out.Unlock()
	junk := verifNondetBytes("junk", verifSplitInt("junklen", 0, 20))
	if len(junk) >= 13 {
		l := []int{0, 3, 7, 8, 255, 16384 + 2048, 16384 + 2049, 65535}[verifSplitInt("claimedLen", 0, 7)]
		junk[11], junk[12] = byte(l>>8), byte(l)
	}
	rt := &verifPConn{in: [][]byte{junk, wt.sent[0]}}
	r := newEstablishedD(rt, vcGCM, iv, false, 0)
	buf := make([]byte, 4)
	var n int
	var err error
	if mode == 0 {
		n, _, err = r.ReadFrom(buf)
	} else {
		n, err = r.Read(buf)
	}
	verifAssert("C16.malformed.genuineRecordStillDelivered", err == nil && n == 1 && buf[0] == pt[0])
	verifReach("delivered")
}
