//go:build verif

package dtlcp

import (
	"net"
	"time"
)

//verif:assume E1 (dtlcp): the packet transport under a Conn is a stub: incoming datagrams have case-split lengths and symbolic contents; WriteTo appends to a ghost log

type verifAddr struct{}

func (verifAddr) Network() string { return "v" }
func (verifAddr) String() string  { return "peer" }

// frame returns n arbitrary bytes framed the way readHandshake hands a (reassembled) message to unmarshal.
func frame(typ uint8, n int) []byte {
	data := verifNondetBytes("msg", n)
	if n >= 12 {
		b := n - 12
		data[0] = typ
		data[1], data[2], data[3] = byte(b>>16), byte(b>>8), byte(b)
		data[6], data[7], data[8] = 0, 0, 0
		data[9], data[10], data[11] = byte(b>>16), byte(b>>8), byte(b)
	}
	return data
}

func sameBytes(id string, a, b []byte) {
	verifAssert(id+".len", len(a) == len(b))
	for i := 0; i < len(a) && i < len(b); i++ {
		verifAssert(id+".byte", a[i] == b[i])
	}
}

// verifPConn: packet transport stub. Incoming datagrams are queued by the harness; every WriteTo is logged.
type verifPConn struct {
	in     [][]byte
	pos    int
	sent    [][]byte
	closed  bool
	offered int // size of the buffer the last ReadFrom call offered
}

func (p *verifPConn) ReadFrom(b []byte) (int, net.Addr, error) {
	p.offered = len(b)
	if p.pos >= len(p.in) {
		return 0, verifAddr{}, verifTimeout{}
	}
	d := p.in[p.pos]
	p.pos++
	n := copy(b, d)
	return n, verifAddr{}, nil
}
func (p *verifPConn) WriteTo(b []byte, a net.Addr) (int, error) {
	p.sent = append(p.sent, append([]byte(nil), b...))
	return len(b), nil
}
func (p *verifPConn) Close() error                       { p.closed = true; return nil }
func (p *verifPConn) LocalAddr() net.Addr                { return verifAddr{} }
func (p *verifPConn) SetDeadline(t time.Time) error      { return nil }
func (p *verifPConn) SetReadDeadline(t time.Time) error  { return nil }
func (p *verifPConn) SetWriteDeadline(t time.Time) error { return nil }

// verifTimeout: what a drained transport returns (a net.Error that is a timeout)
type verifTimeout struct{}

func (verifTimeout) Error() string   { return "verif: i/o timeout" }
func (verifTimeout) Timeout() bool   { return true }
func (verifTimeout) Temporary() bool { return true }

func verifBareConn(cfg *Config, isClient bool) *Conn {
	return &Conn{pconn: &verifPConn{}, remoteAddr: verifAddr{}, config: cfg, isClient: isClient}
}

// handshake header length of this stack, and the extra bytes a ClientHello carries between session id and
// cipher suites (the datagram stack's empty cookie vector)
const vhsHeaderLen = 12
const vhsHelloExtra = 1

func verifMarkComplete(c *Conn) { c.hsState.Store(int32(stateFinished)) }
