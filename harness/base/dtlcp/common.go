//go:build verif

package dtlcp

//verif:assume E1 (dtlcp): the packet transport under a Conn is a stub: incoming datagrams have case-split lengths and symbolic contents; WriteTo appends to a ghost log

type verifAddr struct{}

func (verifAddr) Network() string { return "v" }
func (verifAddr) String() string  { return "peer" }

// frame returns n arbitrary bytes framed the way readHandshake hands a (reassembled) message to unmarshal.
func frame(typ uint8, n int) []byte {
	data := verifNondetBytes("msg", n)
	if n >= 12 {
		b := n - 12
		data[0] = typ
		data[1], data[2], data[3] = byte(b>>16), byte(b>>8), byte(b)
		data[6], data[7], data[8] = 0, 0, 0
		data[9], data[10], data[11] = byte(b>>16), byte(b>>8), byte(b)
	}
	return data
}

func sameBytes(id string, a, b []byte) {
	verifAssert(id+".len", len(a) == len(b))
	for i := 0; i < len(a) && i < len(b); i++ {
		verifAssert(id+".byte", a[i] == b[i])
	}
}
