//go:build verif

package dtlcp

import "bytes"

// C04 — record protection of the datagram stack: the 8 bytes fed to the MAC / additional data and to the GCM
// nonce are epoch(2) || sequence(6) as written in the 13-byte header, together with type, version and plaintext
// length; the sequence number advances by one per record within an epoch. The last obligation is C15's as well:
// a sender whose explicit sequence number repeats has its second datagram dropped by the peer's replay window, so
// "one WriteTo, one datagram, delivered" needs the counter to advance from ANY 48-bit value (carries included).
//
//verif:harness props=C04,C15 paths=2000 reach=done
func VerifHarness_C04_record_layout() {
	kind := verifSplitInt("cipher", vcGCM, vcCBC)
	iv := verifNondetBytes("iv", 4)
	wt := &verifPConn{}
	w := newEstablishedD(wt, kind, iv, true, 0)
	s0 := verifNondetU64("writeSeq")
	verifAssume(s0 < 1<<48-4)
	w.writeSeq = uint48(s0)
	ep := verifNondetU16("epoch")
	w.writeEpoch = ep
	k := 2
	for i := 0; i < k; i++ {
		pt := verifNondetBytes("pt", verifSplitInt("ptlen", 1, 3))
		w.out.Lock()
		n, err := w.writeRecordLocked(recordTypeApplicationData, pt)
		w.out.Unlock()
		verifAssert("C04.record.written", n == len(pt) && err == nil && len(wt.sent) == i+1)
		rec := wt.sent[i]
		s := s0 + uint64(i)
		want := []byte{byte(ep >> 8), byte(ep), byte(s >> 40), byte(s >> 32), byte(s >> 24), byte(s >> 16), byte(s >> 8), byte(s)}
		verifAssert("C04.record.header", len(rec) >= 13 && rec[0] == byte(recordTypeApplicationData) && rec[1] == 1 && rec[2] == 1 &&
			bytes.Equal(rec[3:11], want) && int(rec[11])<<8|int(rec[12]) == len(rec)-13)
		mhdr := []byte{byte(recordTypeApplicationData), 1, 1, 0, byte(len(pt))}
		if kind == vcGCM {
			verifAssert("C04.record.gcm.nonceIsIVThenEpochSeq", vae.n == i+1 && bytes.Equal(vae.nonce[i], append(append([]byte(nil), iv...), want...)))
			verifAssert("C04.record.gcm.additionalData", bytes.Equal(vae.ad[i], append(append([]byte(nil), want...), mhdr...)))
			verifAssert("C04.record.gcm.explicitNonceOnWire", len(rec) == 13+8+len(pt)+16 && bytes.Equal(rec[13:21], want))
		} else {
			verifAssert("C04.record.cbc.macInput", vmac.n == i+1 && bytes.Equal(vmac.sent[i], append(append(append([]byte(nil), want...), mhdr...), pt...)))
			body := rec[13:]
			verifAssert("C04.record.cbc.wholeBlocks", len(body)%16 == 0 && len(body) >= 16+len(pt)+32+1)
		}
	}
	verifAssert("C04.record.seqAdvancesByOne", uint64(w.writeSeq) == s0+uint64(k) && w.writeEpoch == ep)
	verifAssert("C15.record.everyDatagramHasAFreshSequenceNumber", uint64(w.writeSeq) == s0+uint64(k) && w.writeEpoch == ep &&
		len(wt.sent) == k && !bytes.Equal(wt.sent[0][3:11], wt.sent[1][3:11]))
	verifReach("done")
}

// A genuine datagram with exactly one header byte changed (type, version, epoch, sequence number or length, any
// other value) is never delivered, by ReadFrom or by Read, and does not move the read epoch.
//
//verif:harness props=C04 paths=60000 split reach=notDelivered
func VerifHarness_C04_header_authenticated() {
	kind := verifSplitInt("cipher", vcGCM, vcCBC)
	mode := verifSplitInt("readPath", 0, 1)
	iv := verifNondetBytes("iv", 4)
	wt := &verifPConn{}
	w := newEstablishedD(wt, kind, iv, true, 0)
	pt := verifNondetBytes("pt", 2)
	w.out.Lock()
	w.writeRecordLocked(recordTypeApplicationData, pt)
	w.out.Unlock()
	rec := append([]byte(nil), wt.sent[0]...)
	which := verifSplitInt("headerByte", 0, 12)
	var nv byte
	if which >= 11 {
		// length bytes are attacker-chosen lengths: case split (neighbours, zero, one block more, maximum)
		nv = []byte{rec[which] + 1, rec[which] - 1, 0, rec[which] + 16, 255}[verifSplitInt("newLength", 0, 4)]
	} else {
		nv = verifNondetByte("newValue")
	}
	verifAssume(nv != rec[which])
	rec[which] = nv
	if which >= 11 {
		// a changed length field changes how many bytes the receiver takes: supply enough arbitrary tail
		// (arbitrary bytes in the thorough tier; zeros in the quick tier, where every feasible padding length read
		// from an arbitrary tail would be its own path)
		tail := make([]byte, 20)
		if verifBound(0, 1) == 1 {
			tail = verifNondetBytes("tail", 20)
		}
		rec = append(rec, tail...)
	}
	vmac.wire = rec
	if which >= 11 {
		vmac.allWindows = true // after a changed length field the receiver looks for the MAC at other offsets
	} else {
		vmac.recStarts = []int{0} // the record keeps its shape: the MAC is where the sender put it
	}
	rt := &verifPConn{in: [][]byte{rec}}
	r := newEstablishedD(rt, kind, iv, false, 0)
	buf := make([]byte, 4)
	var n int
	var err error
	if mode == 0 {
		n, _, err = r.ReadFrom(buf)
	} else {
		n, err = r.Read(buf)
	}
	// nothing is delivered, except in the self-similar corner where the rest of the datagram, re-parsed after a
	// shortened length field, is byte for byte the genuine record again: then exactly the genuine payload
	_ = err
	if which < 11 {
		verifAssert("C04.auth.modifiedHeaderNeverDelivered", n == 0)
	} else {
		verifAssert("C04.auth.modifiedLengthDeliversNothingForged", n == 0 || (n == len(pt) && bytes.Equal(buf[:n], pt)))
	}
	verifAssert("C04.auth.unauthenticRecordLeavesEpochAlone", r.readEpoch == 1)
	verifReach("notDelivered")
}
