//go:build verif

package dtlcp

import "io"

// C06 / C15 — datagram stack, unmodified transport: every application write of 0..3 bytes, and of the lengths
// around the CBC block boundary (15, 16, 17), produced by the sender's real write path is handed to the reader
// exactly, one message per Read, in order; the write reports its full length. Both cipher modes, Read and
// ReadFrom. (The smallest CBC records — fewer than 16 plaintext bytes — are exactly one IV + three blocks long:
// the receiver's minimum-length guard must admit them.)
//
//verif:harness props=C06,C15 paths=20000 reach=delivered
func VerifHarness_C06_dtlcp_roundtrip() {
	kind := verifSplitInt("cipher", vcGCM, vcCBC)
	mode := verifSplitInt("readPath", 0, 1)
	iv := verifNondetBytes("iv", 4)
	wt := &verifPConn{}
	w := newEstablishedD(wt, kind, iv, true, 0)
	k := verifSplitInt("writes", 1, 2)
	var pts [2][]byte
	for i := 0; i < k; i++ {
		l := []int{1, 2, 3, 15, 16, 17}[verifSplitInt("ptlen", 0, verifBound(3, 5))]
		pts[i] = verifNondetBytes("pt", l)
		n, err := w.Write(pts[i])
		verifAssert("C06.dtlcp.writeFullLength", n == l && err == nil)
		verifAssert("C15.dtlcp.oneDatagramPerSmallWrite", len(wt.sent) == i+1)
	}
	rt := &verifPConn{in: wt.sent}
	r := newEstablishedD(rt, kind, iv, false, 0)
	for i := 0; i < k; i++ {
		buf := make([]byte, 20)
		var n int
		var err error
		if mode == 0 {
			n, _, err = r.ReadFrom(buf)
		} else {
			n, err = r.Read(buf)
		}
		verifAssert("C06.dtlcp.delivered", err == nil && n == len(pts[i]))
		verifAssert("C15.dtlcp.messageBoundaryKept", err == nil && n == len(pts[i]))
		for j := 0; j < n && j < len(pts[i]); j++ {
			verifAssert("C06.dtlcp.sameBytes", buf[j] == pts[i][j])
		}
	}
	verifReach("delivered")
}

// C12 — datagram stack: the peer's last application record and its close_notify alert arrive in ONE datagram and
// the reader's buffer is smaller than the record. Read hands out every byte the peer wrote, then reports
// end-of-stream, and keeps reporting it; no other error appears on the way.
//
//verif:harness props=C12 paths=20000 reach=eof
func VerifHarness_C12_dtlcp_eof_coalesced() {
	kind := verifSplitInt("cipher", vcGCM, vcCBC)
	iv := verifNondetBytes("iv", 4)
	wt := &verifPConn{}
	w := newEstablishedD(wt, kind, iv, true, 0)
	l := verifSplitInt("ptlen", 1, 3)
	pt := verifNondetBytes("pt", l)
	n, err := w.Write(pt)
	verifAssert("C12.dtlcp.writeOK", n == l && err == nil)
	verifAssert("C12.dtlcp.closeWriteOK", w.CloseWrite() == nil)
	if len(wt.sent) != 2 {
		verifAssume(false)
	}
	var d []byte
	if verifSplitInt("coalesced", 0, 1) == 1 {
		d = append(append([]byte(nil), wt.sent[0]...), wt.sent[1]...)
	}
	rt := &verifPConn{in: wt.sent}
	if d != nil {
		rt.in = [][]byte{d}
	}
	r := newEstablishedD(rt, kind, iv, false, 0)
	got := 0
	bufsz := verifSplitInt("bufsz", 1, 3)
	sawEOF := false
	for i := 0; i < 5; i++ {
		buf := make([]byte, bufsz)
		n, err := r.Read(buf)
		for j := 0; j < n && got+j < l; j++ {
			verifAssert("C12.dtlcp.sameBytes", buf[j] == pt[got+j])
		}
		got += n
		verifAssert("C12.dtlcp.noExtraBytes", got <= l)
		if err != nil {
			verifAssert("C12.dtlcp.eofOnlyAfterEverything", err == io.EOF && got == l)
			sawEOF = true
			n2, err2 := r.Read(buf)
			verifAssert("C12.dtlcp.eofSticky", n2 == 0 && err2 == io.EOF)
			break
		}
	}
	verifAssert("C12.dtlcp.eofReported", sawEOF)
	verifReach("eof")
}
