//go:build verif

package dtlcp

import (
	"net"
	"time"
)

// C19 — per-endpoint reaction lemmas of the datagram record layer under loss and reordering. Each harness puts
// the REAL readRecordOrCCS / ReadFrom / Read into the state one endpoint is in when a single datagram of the
// handshake has been lost, duplicated or has overtaken another one, delivers what the network then delivers,
// and asserts the reaction the two-endpoint robustness argument rests on: never fatal, nothing bogus consumed,
// and where the endpoint owns the last flight, that flight is sent again.

// verifLastFlight: a ChangeCipherSpec record (epoch 0) followed by a protected Finished record (epoch 1), as
// both roles keep it for retransmission
func verifLastFlight() []byte {
	ccs := []byte{byte(recordTypeChangeCipherSpec), 1, 1, 0, 0, 0, 0, 0, 0, 0, 5, 0, 1, 1}
	fin := verifNondetBytes("ownFinishedRecord", 13+4)
	fin[0], fin[1], fin[2], fin[3], fin[4] = byte(recordTypeHandshake), 1, 1, 0, 1
	fin[5], fin[6], fin[7], fin[8], fin[9], fin[10] = 0, 0, 0, 0, 0, 0
	fin[11], fin[12] = 0, 4
	return append(ccs, fin...)
}

func verifConcat(ds [][]byte) []byte {
	var out []byte
	for _, d := range ds {
		out = append(out, d...)
	}
	return out
}

// Dwell: the endpoint that sent the last flight of the handshake (the server after a full handshake, the client
// after an abbreviated one) has completed; that flight was lost, so the peer's retransmission timer fires and
// its previous flight arrives again: ChangeCipherSpec of the old epoch, then its Finished (a record of the
// current epoch whose sequence number was seen before; arbitrary bytes here). The endpoint sends its last
// flight again, byte for byte, and nothing is fatal or delivered. Both read paths.
//
//verif:harness props=C19 paths=4000 reach=answered
func VerifHarness_C19_dwell_answers_retransmission() {
	kind := verifSplitInt("cipher", vcGCM, vcCBC)
	mode := verifSplitInt("readPath", 0, 1)
	verifTag("readPath", mode)
	isClient := verifSplitInt("role", 0, 1) == 1
	verifTag("clientRole", map[bool]int{false: 0, true: 1}[isClient])
	peerCCS := []byte{byte(recordTypeChangeCipherSpec), 1, 1, 0, 0, 0, 0, 0, 0, 0, byte(verifSplitInt("peerCCSSeq", 2, 3)), 0, 1, 1}
	d := peerCCS
	if verifSplitInt("withFinished", 0, 1) == 1 {
		fin := verifNondetBytes("peerFinishedRecord", 13+3)
		fin[0], fin[1], fin[2], fin[3], fin[4] = byte(recordTypeHandshake), 1, 1, 0, 1
		fin[11], fin[12] = 0, 3
		d = append(append([]byte(nil), peerCCS...), fin...)
	}
	t := &verifPConn{in: [][]byte{d}}
	c := newEstablishedD(t, kind, verifNondetBytes("iv", 4), false, 0)
	c.isClient = isClient
	own := verifLastFlight()
	c.flightRetransmit = append([]byte(nil), own...)
	c.dwellDeadline = time.Now().Add(dwellPeriod)
	buf := make([]byte, 4)
	var n int
	var err error
	if mode == 0 {
		n, _, err = c.ReadFrom(buf)
	} else {
		n, err = c.Read(buf)
	}
	verifAssert("C19.dwell.retransmissionIsNotFatalNorDelivered", n == 0 && isTimeout(err) && c.in.err == nil)
	verifAssert("C19.dwell.lastFlightSentAgain", len(t.sent) >= 1 && sameBytesBool(verifConcat(t.sent), own))
	verifReach("answered")
}

func sameBytesBool(a, b []byte) bool {
	if len(a) != len(b) {
		return false
	}
	for i := range a {
		if a[i] != b[i] {
			return false
		}
	}
	return true
}

// A record of the NEXT epoch reaches an endpoint that is still in the handshake and has not yet switched keys:
// the peer's Finished or its first application data overtook its ChangeCipherSpec, or survived its loss. The
// endpoint cannot decrypt it; it must neither treat it as fatal nor consume its bytes as if they were plaintext.
//
//verif:harness props=C19,C09 paths=4000 reach=read
func VerifHarness_C19_future_epoch_record() {
	l := verifSplitInt("len", 1, 3)
	r := verifNondetBytes("rec", 13+l)
	r[0] = byte([]recordType{recordTypeHandshake, recordTypeApplicationData, recordTypeAlert}[verifSplitInt("type", 0, 2)])
	r[1], r[2], r[3], r[4] = 1, 1, 0, 1
	r[11], r[12] = 0, byte(l)
	t := &verifPConn{in: [][]byte{r}}
	c := &Conn{pconn: t, remoteAddr: verifAddr{}, config: &Config{Rand: verifRandSrc{}}}
	c.isClient = verifSplitInt("role", 0, 1) == 1
	c.vers, c.haveVers = VersionTLCP, true
	c.hsState.Store(int32(stateWaiting))
	c.replayWindow = newReplayWindow(64)
	expectCCS := verifSplitInt("expectCCS", 0, 1) == 1
	if expectCCS {
		c.in.nextCipher = &verifCBC{}
		c.in.nextMac = &verifMAC{}
	}
	err := c.readRecordOrCCS(expectCCS)
	verifReach("read")
	verifTag("futureEpoch", 1)
	verifAssert("C19.reorder.futureEpochRecordIsNotFatal", c.in.err == nil && isTimeout(err))
	verifAssert("C19.reorder.futureEpochRecordNotConsumed", len(c.readBuf) == 0 && c.handBuf.Len() == 0 && c.in.cipher == nil)
}

// The server has sent its abbreviated-handshake flight (ServerHello, ChangeCipherSpec, Finished) and waits for
// the client's ChangeCipherSpec; the flight was lost, the client's timer fires and its ClientHello arrives
// again (same message, new record). That is not fatal: the server keeps waiting (its own timer resends the
// flight), and the retransmitted hello is not fed to the handshake layer.
//
//verif:harness props=C19 paths=2000 reach=read
func VerifHarness_C19_hello_retransmitted_to_waiting_server() {
	l := vhsHeaderLen + verifSplitInt("bodyLen", 0, 2)
	r := verifNondetBytes("helloRecord", 13+l)
	r[0], r[1], r[2], r[3], r[4] = byte(recordTypeHandshake), 1, 1, 0, 0
	r[11], r[12] = 0, byte(l)
	r[13] = typeClientHello
	t := &verifPConn{in: [][]byte{r}}
	c := &Conn{pconn: t, remoteAddr: verifAddr{}, config: &Config{Rand: verifRandSrc{}}}
	c.vers, c.haveVers = VersionTLCP, true
	c.hsState.Store(int32(stateWaiting))
	c.replayWindow = newReplayWindow(64)
	c.in.nextCipher = &verifCBC{}
	c.in.nextMac = &verifMAC{}
	err := c.readRecordOrCCS(true)
	verifReach("read")
	verifTag("helloWhileAwaitingCCS", 1)
	verifAssert("C19.react.retransmittedHelloIsNotFatal", c.in.err == nil && isTimeout(err))
	verifAssert("C19.react.retransmittedHelloNotConsumed", c.handBuf.Len() == 0 && c.in.cipher == nil)
}

// Reordering inside a flight that spans several datagrams: the second message of the flight (message_seq s+1)
// arrives before the first (message_seq s). The handshake layer must hand messages to the state machine in
// message_seq order (keeping or discarding the early one — the peer retransmits); handing over the later
// message first makes the state machine fail with "unexpected message" although nothing was lost.
// Known finding F26 today: readHandshake has no notion of the next expected message_seq.
//
//verif:harness props=C19 paths=2000 reach=read
func VerifHarness_C19_message_order() {
	st := &verifPConn{}
	s := newSizeConn(st, 200, 0)
	s.hsState.Store(int32(statePreparing))
	s.writeEpoch = 0
	seq := uint16(0) // a fresh connection: the first message expected is message_seq 0
	m0 := &finishedMsg{verifyData: verifNondetBytes("body0", 2)}
	m0.setMessageSeq(seq)
	m1 := &finishedMsg{verifyData: verifNondetBytes("body1", 3)}
	m1.setMessageSeq(seq + 1)
	s.writeHandshakeRecord(m0, nil)
	s.writeHandshakeRecord(m1, nil)
	if len(st.sent) != 2 {
		verifAssume(false)
	}
	swapped := verifSplitInt("secondOvertakesFirst", 0, 1) == 1
	rt := &verifPConn{in: [][]byte{st.sent[0], st.sent[1]}}
	if swapped {
		rt.in = [][]byte{st.sent[1], st.sent[0]}
	}
	verifTag("overtaking", map[bool]int{false: 0, true: 1}[swapped])
	r := newSizeConn(rt, 200, 0)
	r.hsState.Store(int32(statePreparing))
	r.readEpoch = 0
	r.haveVers = true
	r.replayWindow = newReplayWindow(64)
	r.pendingFragments = map[uint16]*fragmentBuffer{}
	msg, err := r.readHandshake(nil)
	verifReach("read")
	if err != nil {
		verifAssert("C19.reorder.overtakingMessageIsNotFatal", r.in.err == nil && isTimeout(err))
		return
	}
	fm, ok := msg.(*finishedMsg)
	verifAssert("C19.reorder.messagesDeliveredInSequence", ok && fm.getMessageSeq() == seq && len(fm.verifyData) == 2)
}

// C03 / C08 — the deferred ChangeCipherSpec path: a ChangeCipherSpec that follows a not yet consumed handshake
// record in the same datagram (ClientKeyExchange, ChangeCipherSpec, Finished packed together) is only noted and
// applied later by readChangeCipherSpec, which does not look at the record again. It may be noted only if it is
// the one-byte signal 0x01: ChangeCipherSpec is outside the Finished transcript, so nothing else would notice a
// different body.
//
//verif:harness props=C03,C08 paths=4000 reach=deferred,rejected
func VerifHarness_C03_dtlcp_deferred_ccs() {
	hl := verifSplitInt("handshakeLen", 1, 2)
	h := verifNondetBytes("handshakeRecord", 13+hl)
	h[0], h[1], h[2], h[3], h[4] = byte(recordTypeHandshake), 1, 1, 0, 0
	h[5], h[6], h[7], h[8], h[9], h[10] = 0, 0, 0, 0, 0, 1
	h[11], h[12] = 0, byte(hl)
	bl := verifSplitInt("ccsBodyLen", 0, 2)
	ccs := verifNondetBytes("ccsRecord", 13+bl)
	ccs[0], ccs[1], ccs[2], ccs[3], ccs[4] = byte(recordTypeChangeCipherSpec), 1, 1, 0, 0
	ccs[5], ccs[6], ccs[7], ccs[8], ccs[9], ccs[10] = 0, 0, 0, 0, 0, 2
	ccs[11], ccs[12] = 0, byte(bl)
	d := append(append([]byte(nil), h...), ccs...)
	t := &verifPConn{in: [][]byte{d}}
	c := &Conn{pconn: t, remoteAddr: verifAddr{}, config: &Config{Rand: verifRandSrc{}}}
	c.isClient = verifSplitInt("role", 0, 1) == 1
	c.vers, c.haveVers = VersionTLCP, true
	c.hsState.Store(int32(stateWaiting))
	c.replayWindow = newReplayWindow(64)
	err := c.readRecordOrCCS(false)
	wellFormed := bl == 1 && ccs[13] == 1
	if c.in.deferredCCS {
		verifReach("deferred")
		verifAssert("C03.ccs.dtlcpDeferredOnlyIfWellFormed", wellFormed)
		verifAssert("C08.ccs.dtlcpDeferredOnlyIfWellFormed", wellFormed)
		c.in.nextCipher = &verifCBC{}
		c.in.nextMac = &verifMAC{}
		_ = c.readChangeCipherSpec()
		verifAssert("C03.ccs.dtlcpAppliedOnlyIfWellFormed", c.in.cipher == nil || wellFormed)
	} else {
		verifReach("rejected")
		verifAssert("C03.ccs.dtlcpMalformedIsAnError", wellFormed || err != nil)
	}
}

// C18 — the address filter under the cookie: the cookie binds a ClientHello to the connection's peer address, and
// the only thing that ties an incoming datagram to that address is readDatagram's source check. A datagram from
// another source — different port, different host, or different IPv6 zone — is ignored and the next datagram from
// the peer is taken.
//
//verif:harness props=C18,C16 paths=2000 reach=filtered
func VerifHarness_C18_source_address_filter() {
	peer := &net.UDPAddr{IP: net.IPv4(10, 0, 0, 1), Port: 10000}
	other := &net.UDPAddr{IP: net.IPv4(10, 0, 0, 1), Port: 10000}
	switch verifSplitInt("differsIn", 0, 2) {
	case 0:
		other.Port = 10001
	case 1:
		other.IP = net.IPv4(10, 0, 0, 2)
	case 2:
		peer.IP, other.IP = net.ParseIP("fe80::1"), net.ParseIP("fe80::1")
		peer.Zone, other.Zone = "eth0", "eth1"
	}
	foreign := verifNondetBytes("foreignDatagram", 14)
	genuine := verifNondetBytes("peerDatagram", 15)
	t := &verifAddrPConn{from: []net.Addr{other, peer}, data: [][]byte{foreign, genuine}}
	c := &Conn{pconn: t, remoteAddr: peer, config: &Config{Rand: verifRandSrc{}}}
	err := c.readDatagram()
	verifReach("filtered")
	verifAssert("C18.filter.foreignSourceIgnored", err == nil && len(c.rawInputBuf) == 15 && t.pos == 2)
	verifAssert("C16.filter.foreignSourceIgnored", err == nil && len(c.rawInputBuf) == 15 && t.pos == 2)
	for i := 0; i < len(c.rawInputBuf) && i < 15; i++ {
		verifAssert("C18.filter.peerDatagramTaken", c.rawInputBuf[i] == genuine[i])
	}
}

type verifAddrPConn struct {
	verifPConn
	from []net.Addr
	data [][]byte
	pos  int
}

func (p *verifAddrPConn) ReadFrom(b []byte) (int, net.Addr, error) {
	if p.pos >= len(p.data) {
		return 0, verifAddr{}, verifTimeout{}
	}
	n := copy(b, p.data[p.pos])
	a := p.from[p.pos]
	p.pos++
	return n, a, nil
}

// C19 — the early ChangeCipherSpec must still be acceptable when the flight is retransmitted: flights are resent
// byte for byte with the same record sequence numbers, so a ChangeCipherSpec that was dropped because it came
// before its turn must not have been entered in the replay window. Two steps on the real record layer: (1) the
// server, waiting for ClientKeyExchange with nothing buffered, receives the ChangeCipherSpec record: dropped, not
// fatal; (2) the key exchange done, the same record arrives again while the ChangeCipherSpec is expected: the
// keys are switched.
//
//verif:harness props=C19 paths=2000 reach=switched
func VerifHarness_C19_early_ccs_accepted_on_retransmission() {
	ccs := []byte{byte(recordTypeChangeCipherSpec), 1, 1, 0, 0, 0, 0, 0, 0, 0, byte(verifSplitInt("ccsSeq", 2, 4)), 0, 1, 1}
	t := &verifPConn{in: [][]byte{ccs, ccs}}
	c := &Conn{pconn: t, remoteAddr: verifAddr{}, config: &Config{Rand: verifRandSrc{}}}
	c.vers, c.haveVers = VersionTLCP, true
	c.hsState.Store(int32(stateWaiting))
	c.replayWindow = newReplayWindow(64)
	// records with lower sequence numbers (ClientHello, ...) were seen before
	c.replayWindow.check(0)
	c.replayWindow.check(1)
	// step 1: reads the early ChangeCipherSpec (dropped) and then the second copy, which is just as early: both are
	// dropped, the read ends with the transport's timeout
	err := c.readRecordOrCCS(false)
	verifAssert("C19.reorder.earlyCCSDropped", c.in.err == nil && isTimeout(err) && c.in.cipher == nil)
	// step 2: the retransmission arrives when the ChangeCipherSpec is due
	t.in = append(t.in, ccs)
	c.in.nextCipher = &verifCBC{}
	c.in.nextMac = &verifMAC{}
	err = c.readRecordOrCCS(true)
	verifAssert("C19.reorder.retransmittedCCSAccepted", err == nil && c.in.cipher != nil && c.readEpoch == 1)
	verifReach("switched")
}

// C12 / C09 — datagram stack: more than maxUselessRecords consecutive warning alerts from the key-holding peer are a
// fatal condition (the flooder is cut off), and it stays reported: the Read that hits the limit fails, and so does
// every later Read, even if application data follows.
//
//verif:harness props=C12,C09 paths=200 unwind=60 depth=600 reach=cutoff
func VerifHarness_C12_dtlcp_warning_flood_is_final() {
	kind := verifSplitInt("cipher", vcGCM, vcCBC)
	iv := verifNondetBytes("iv", 4)
	wt := &verifPConn{}
	w := newEstablishedD(wt, kind, iv, true, 0)
	k := maxUselessRecords + 1
	for i := 0; i < k; i++ {
		w.out.Lock()
		w.writeRecordLocked(recordTypeAlert, []byte{alertLevelWarning, 90}) // user_canceled: a warning that is ignored
		w.out.Unlock()
	}
	w.Write([]byte{7})
	rt := &verifPConn{in: wt.sent}
	r := newEstablishedD(rt, kind, iv, false, 0)
	buf := make([]byte, 4)
	n, err := r.Read(buf)
	verifReach("cutoff")
	verifAssert("C09.flood.dtlcpFlooderIsCutOff", n == 0 && err != nil && !isTimeout(err))
	verifAssert("C12.flood.dtlcpFatalErrorReported", n == 0 && err != nil && !isTimeout(err))
	n2, err2 := r.Read(buf)
	verifAssert("C12.flood.dtlcpFatalErrorStaysReported", n2 == 0 && err2 != nil && !isTimeout(err2))
	n3, err3 := w.Write([]byte{1})
	_, _ = n3, err3
}
