//go:build verif

package dtlcp

// C17: the real fragmentBuffer against a reference reassembler (covered set + original bytes).
//
//verif:harness props=C17,C09 paths=800000 tpaths=4000000 reach=complete,incomplete,refused
func VerifHarness_C17_buffer() {
	total := verifSplitInt("total", 1, verifBound(5, 9))
	if verifSplitInt("long", 0, 1) == 1 {
		// two longer messages (more than one bitmap byte, fragments of 8 bytes and more) with at most 2 fragments
		total = []int{10, 13}[verifSplitInt("longTotal", 0, 1)]
	}
	orig := verifNondetBytes("orig", total)
	fb := newFragmentBuffer(uint24(total))
	var covered [16]bool
	// quick: up to 3 fragments of a 1..5 byte message; thorough: 1..9 bytes (two bitmap bytes), 3 fragments up to 6 bytes, 2 beyond
	maxf := 3
	if total > 6 {
		maxf = 2
	}
	nfrag := verifSplitInt("nfrag", 1, maxf)
	for f := 0; f < nfrag; f++ {
		off := verifSplitInt("off", 0, total+1)
		ln := verifSplitInt("len", 0, total+1)
		// genuine fragments are slices of the original; out-of-range ones carry arbitrary data
		var data []byte
		inRange := off+ln <= total
		if inRange {
			data = orig[off : off+ln]
		} else {
			data = verifNondetBytes("junk", ln)
			verifReach("refused")
		}
		ok := fb.addFragment(uint24(off), uint24(ln), data)
		verifAssert("C17.buffer.rejectsExactlyOutOfRange", ok == inRange)
		if inRange {
			for i := off; i < off+ln; i++ {
				covered[i] = true
			}
		}
	}
	all := true
	for i := 0; i < total; i++ {
		if !covered[i] {
			all = false
		}
	}
	verifAssert("C17.buffer.completeIffCovered", fb.complete() == all)
	if all {
		verifReach("complete")
		got := fb.assembled()
		verifAssert("C17.buffer.assembledLen", len(got) == total)
		for i := 0; i < total && i < len(got); i++ {
			verifAssert("C17.buffer.assembledByte", got[i] == orig[i])
		}
	} else {
		verifReach("incomplete")
	}
}

// C17/C09: fragments whose declared length disagrees with the data, huge offsets (uint24 range): no panic,
// refused when they exceed the announced total.
//
//verif:harness props=C17,C09 paths=20000 reach=ok,refused
func VerifHarness_C17_buffer_hostile() {
	// readHandshake creates a buffer only for a fragment with offset+length <= announced length and
	// (length < announced || offset > 0), hence never for an announced length of 0
	total := verifSplitInt("total", 1, 4)
	fb := newFragmentBuffer(uint24(total))
	off := verifNondetU32("off")
	ln := verifNondetU32("len")
	verifAssume(off < 1<<24 && ln < 1<<24)
	dl := verifSplitInt("datalen", 0, 6)
	data := verifNondetBytes("data", dl)
	// readHandshake hands addFragment a body slice of exactly fragment_length bytes
	verifAssume(uint32(dl) == ln || ln > 6)
	if ln > 6 {
		// length field larger than any body we model: must be refused by the range check before any copy
		verifAssume(uint64(off)+uint64(ln) > uint64(total))
	}
	ok := fb.addFragment(uint24(off), uint24(ln), data)
	if ok {
		verifReach("ok")
		verifAssert("C17.hostile.acceptedInRange", uint64(off)+uint64(ln) <= uint64(total))
	} else {
		verifReach("refused")
		verifAssert("C17.hostile.refusedOutOfRange", uint64(off)+uint64(ln) > uint64(total))
	}
	_ = fb.complete()
}
