//go:build verif

package dtlcp

import "time"

// length-only cipher stubs (contents are irrelevant in a size lemma)
type verifLenAEAD struct{}

func (verifLenAEAD) NonceSize() int { return 12 }
func (verifLenAEAD) Overhead() int  { return 16 }
func (verifLenAEAD) Seal(dst, nonce, plaintext, ad []byte) []byte {
	return append(dst, verifNondetBytes("ct", len(plaintext)+16)...)
}
func (verifLenAEAD) Open(dst, nonce, ct, ad []byte) ([]byte, error) { return nil, nil }

type verifLenCBC struct{}

func (verifLenCBC) BlockSize() int              { return 16 }
func (verifLenCBC) CryptBlocks(dst, src []byte) {}
func (verifLenCBC) SetIV(iv []byte)             {}

type verifLenMAC struct{}

func (*verifLenMAC) Write(p []byte) (int, error) { return len(p), nil }
func (*verifLenMAC) Sum(b []byte) []byte         { return append(b, make([]byte, 32)...) }
func (*verifLenMAC) Reset()                      {}
func (*verifLenMAC) Size() int                   { return 32 }
func (*verifLenMAC) BlockSize() int              { return 64 }

type verifZeroRand struct{}

func (verifZeroRand) Read(p []byte) (int, error) { return len(p), nil }

func newSizeConn(t *verifPConn, pmtu, kind int) *Conn {
	c := &Conn{pconn: t, remoteAddr: verifAddr{}, config: &Config{PMTU: pmtu, Rand: verifZeroRand{}}}
	c.vers = VersionTLCP
	c.hsState.Store(int32(stateFinished))
	c.writeEpoch = 1
	switch kind {
	case 1:
		c.out.cipher = &prefixNonceAEAD{aead: verifLenAEAD{}}
	case 2:
		c.out.cipher = verifLenCBC{}
		c.out.mac = &verifLenMAC{}
	}
	return c
}

// C15 — a payload no larger than the connection's maximum payload leaves as exactly one datagram that fits the
// path MTU and carries at most 16384 bytes of plaintext; PMTU arbitrary (0 = default 1400, else 96..20000),
// payload length arbitrary in 1..maxPayload (symbolic), cipher none / GCM / CBC.
//
//verif:harness props=C15,C06 paths=5000 reach=written
func VerifHarness_C15_size() {
	pmtu := verifNondetInt("pmtu")
	verifAssume(pmtu == 0 || (pmtu >= 96 && pmtu <= 20000)) // below 77 a CBC record cannot carry a single byte
	kind := verifSplitInt("cipher", 0, 2)
	verifTag("cipher", kind)
	t := &verifPConn{}
	c := newSizeConn(t, pmtu, kind)
	mp := c.maxPayloadSizeForWrite(recordTypeApplicationData)
	verifAssert("C15.size.maxPayloadWithinRecordLimit", mp >= 1 && mp <= 16384)
	// C06: no record on the wire carries more than 16384 bytes of plaintext — on the datagram stack too, whatever
	// path MTU is configured
	verifAssert("C06.dtlcp.maxPayloadWithinRecordLimit", mp >= 1 && mp <= 16384)
	n := verifNondetInt("len")
	verifAssume(n >= 1 && n <= mp)
	data := verifNondetBytes("data", n)
	wn, err := c.writeRecordLocked(recordTypeApplicationData, data)
	eff := pmtu
	if eff == 0 {
		eff = 1400
	}
	verifReach("written")
	verifAssert("C15.size.noError", err == nil && wn == n)
	verifAssert("C15.size.oneDatagram", len(t.sent) == 1)
	if len(t.sent) == 1 {
		verifAssert("C15.size.datagramFitsPMTU", len(t.sent[0]) <= eff)
		body := len(t.sent[0]) - 13
		verifAssert("C15.size.headerLengthMatches", body >= 0 && int(t.sent[0][11])<<8|int(t.sent[0][12]) == body)
	}
}

// C15 — Write of a buffer longer than the maximum payload is split into datagrams that each fit the PMTU,
// carry the payload in order and advance the record sequence number by one each.
//
//verif:harness props=C15 paths=5000 reach=split
func VerifHarness_C15_split_write() {
	pmtu := verifSplitInt("pmtu", 96, 98)
	kind := verifSplitInt("cipher", 0, 2)
	verifTag("cipher", kind)
	t := &verifPConn{}
	c := newSizeConn(t, pmtu, kind)
	mp := c.maxPayloadSizeForWrite(recordTypeApplicationData)
	n := verifSplitInt("len", mp+1, 2*mp+1)
	data := verifNondetBytes("data", n)
	wn, err := c.writeRecordLocked(recordTypeApplicationData, data)
	verifAssert("C15.split.complete", err == nil && wn == n)
	want := (n + mp - 1) / mp
	verifAssert("C15.split.count", len(t.sent) == want)
	for i := 0; i < len(t.sent); i++ {
		verifAssert("C15.split.eachFitsPMTU", len(t.sent[i]) <= pmtu)
		verifAssert("C15.split.sequenceNumbers", len(t.sent[i]) >= 13 && int(t.sent[i][10]) == i && t.sent[i][4] == 1)
	}
	if kind == 0 {
		off := 0
		for i := 0; i < len(t.sent); i++ {
			p := t.sent[i][13:]
			for j := 0; j < len(p) && off+j < n; j++ {
				verifAssert("C15.split.inOrder", p[j] == data[off+j])
			}
			off += len(p)
		}
		verifAssert("C15.split.nothingLost", off == n)
	}
	verifReach("split")
}

// C19 — retransmission timer: back-off doubles up to the configured maximum, reset restores the initial
// value, every arm of the timer uses the current value; durations up to 2^40 ns (18 minutes).
//
//verif:harness props=C19 paths=2000 reach=done
func VerifHarness_C19_timer() {
	initial := time.Duration(verifNondetU64("initial"))
	max := time.Duration(verifNondetU64("max"))
	verifAssume(initial > 0 && initial <= max && max <= 1<<40)
	var armed [8]time.Duration
	n := 0
	rt := newRetransmitTimer(initial, max, func(d time.Duration) *TimerHandle {
		if n < 8 {
			armed[n] = d
		}
		n++
		return &TimerHandle{Stop: func() bool { return true }}
	})
	cur := initial
	steps := verifBound(5, 7)
	for i := 0; i < steps; i++ {
		switch verifSplitInt("op", 0, 2) {
		case 0:
			rt.backoff()
			want := cur * 2
			if want > max {
				want = max
			}
			cur = want
			verifAssert("C19.timer.backoffDoublesUpToMax", rt.current == cur && rt.current <= max && rt.current >= initial)
			verifAssert("C19.timer.backoffRearms", n == i+1 && armed[i] == cur)
		case 1:
			rt.reset()
			cur = initial
			verifAssert("C19.timer.resetRestoresInitial", rt.current == initial)
			verifAssert("C19.timer.resetRearms", n == i+1 && armed[i] == initial)
		case 2:
			rt.start()
			verifAssert("C19.timer.startUsesCurrent", n == i+1 && armed[i] == cur)
		}
	}
	rt.stop()
	verifAssert("C19.timer.stopDisarms", rt.handle == nil && !rt.fired())
	verifReach("done")
}

// C19 — configured defaults: initial 1 s, maximum 60 s.
//
//verif:harness props=C19 paths=100 reach=done
func VerifHarness_C19_defaults() {
	verifAssert("C19.defaults", defaultInitialRetransmitTimeout == time.Second && defaultMaxRetransmitTimeout == 60*time.Second)
	verifReach("done")
}

// C15 — a handshake flight: 2..3 handshake messages written while buffering, then flush; every datagram
// handed to the network must fit the PMTU (each record individually does). Today the whole flight leaves as one
// datagram (known finding K3).
//
//verif:harness props=C15 paths=2000 reach=flushed
func VerifHarness_C15_flight() {
	pmtu := verifSplitInt("pmtu", 96, 97)
	t := &verifPConn{}
	c := newSizeConn(t, pmtu, 0)
	c.hsState.Store(int32(statePreparing))
	c.writeEpoch = 0
	c.buffering = true
	k := verifSplitInt("messages", 2, 3)
	total := 0
	for i := 0; i < k; i++ {
		m := &finishedMsg{verifyData: verifNondetBytes("body", verifSplitInt("bodylen", 30, 31))}
		m.messageSeq = uint16(i)
		n, err := c.writeHandshakeRecord(m, nil)
		verifAssert("C15.flight.written", err == nil && n > 0)
		total += 13 + n
	}
	c.flush()
	verifReach("flushed")
	verifTag("flight", 1)
	sum := 0
	for i := 0; i < len(t.sent); i++ {
		verifAssert("C15.flight.eachDatagramFitsPMTU", len(t.sent[i]) <= pmtu)
		sum += len(t.sent[i])
	}
	verifAssert("C15.flight.nothingLost", sum == total)
}

// C15 — the receive side can take everything the send side may legally emit: for every PMTU (also above the
// record limit) and every payload length up to the maximum payload, the datagram the real write path produces
// is no longer than the buffer the real readDatagram offers to the transport.
//
//verif:harness props=C15 paths=2000 reach=done
func VerifHarness_C15_receive_capacity() {
	pmtu := verifNondetInt("pmtu")
	verifAssume(pmtu == 0 || (pmtu >= 96 && pmtu <= 40000))
	kind := verifSplitInt("cipher", 0, 2)
	st := &verifPConn{}
	s := newSizeConn(st, pmtu, kind)
	mp := s.maxPayloadSizeForWrite(recordTypeApplicationData)
	n := verifNondetInt("len")
	verifAssume(n >= 1 && n <= mp)
	s.writeRecordLocked(recordTypeApplicationData, verifNondetBytes("data", n))
	rt := &verifPConn{}
	r := newSizeConn(rt, pmtu, kind)
	_ = r.readDatagram()
	verifAssert("C15.receive.bufferHoldsLargestDatagram", len(st.sent) == 1 && rt.offered >= len(st.sent[0]))
	verifReach("done")
}
