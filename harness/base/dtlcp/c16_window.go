//go:build verif

package dtlcp

// C16 — replay window (dtlcp/replay.go).
//
//verif:assume C16-window: sequence numbers are 48-bit (assumed < 2^48, as the record header carries them)

// Bounded history from the initial state: K arbitrary sequence numbers through the real
// newReplayWindow/check; no number is accepted twice; a fresh number that is newer than everything
// accepted, or within max(32, min(size,64)) of the newest, is accepted.
//
//verif:harness props=C16,C19 paths=60000 reach=done,accepted,rejected
func VerifHarness_C16_window_bmc() {
	size := verifNondetInt("size")
	verifAssume(size >= -4 && size <= 1<<20)
	w := newReplayWindow(size)
	k := verifBound(3, 4)
	var seqs [4]uint48
	var acc [4]bool
	for i := 0; i < k; i++ {
		s := verifNondetU64("seq")
		verifAssume(s < 1<<48)
		seqs[i] = uint48(s)
		// specification state before the step: was s seen (accepted) before? what is the newest accepted?
		seen := false
		var newest uint48
		any := false
		for j := 0; j < i; j++ {
			seen = verifOr(seen, verifAnd(acc[j], seqs[j] == seqs[i]))
			nw := verifAnd(acc[j], verifOr(!any, seqs[j] > newest))
			newest = uint48(verifIteU64(nw, uint64(seqs[j]), uint64(newest)))
			any = verifOr(any, acc[j])
		}
		acc[i] = w.check(seqs[i])
		if acc[i] {
			verifReach("accepted")
		} else {
			verifReach("rejected")
		}
		verifAssert("C16.window.atMostOnce", verifImplies(acc[i], !seen))
		// C19: duplicate suppression is done at the record layer only (retransmissions are byte-identical and the
		// handshake layer does not check message_seq on receipt): a duplicated datagram must not be processed twice
		verifAssert("C19.dup.duplicateRecordSuppressed", verifImplies(acc[i], !seen))
		eff := uint64(verifIteInt(size > 64, 64, verifIteInt(size < 32, 32, size)))
		within := verifOr(!any, verifOr(seqs[i] > newest, uint64(newest-seqs[i]) < eff))
		verifAssert("C16.window.freshWithinWindowAccepted", verifImplies(verifAnd(!seen, within), acc[i]))
	}
	verifReach("done")
}

// One step from an arbitrary window state (right edge, bitmap) that satisfies the representation
// invariant of reachable states: covers histories of any length. The ghost set "seen" is represented
// by the bitmap for numbers within 64 of the right edge; older numbers count as possibly seen.
//
//verif:harness props=C16 paths=4000 reach=accepted,rejected
func VerifHarness_C16_window_step() {
	size := verifNondetInt("size")
	verifAssume(size >= -4 && size <= 1<<20)
	w := newReplayWindow(size)
	eff := uint64(verifIteInt(size > 64, 64, verifIteInt(size < 32, 32, size)))
	right := verifNondetU64("right")
	verifAssume(right < 1<<48)
	bm := verifNondetU64("bitmap")
	// reachable states: the newest accepted number is marked (bit 0) unless nothing above 0 was accepted;
	// no bit stands for a negative number
	verifAssume(verifImplies(right > 0, bm&1 == 1))
	verifAssume(verifImplies(right < 63, bm>>((right+1)&63) == 0))
	w.right = uint48(right)
	w.bitmap = bm
	s := verifNondetU64("seq")
	verifAssume(s < 1<<48)
	d := right - s
	markedBefore := verifAnd(s <= right, verifAnd(d < 64, (bm>>(d&63))&1 == 1))
	ok := w.check(uint48(s))
	if ok {
		verifReach("accepted")
	} else {
		verifReach("rejected")
	}
	// (1) a number that is marked as received is never accepted again
	verifAssert("C16.window.step.markedRejected", verifImplies(markedBefore, !ok))
	// (2) numbers behind the effective window are rejected (the bitmap cannot tell whether they were seen)
	verifAssert("C16.window.step.tooOldRejected", verifImplies(verifAnd(s <= right, d >= eff), !ok))
	// (3) completeness: unmarked and (newer, or inside the effective window) => accepted
	verifAssert("C16.window.step.freshAccepted", verifImplies(verifAnd(!markedBefore, verifOr(s > right, d < eff)), ok))
	nr := uint64(w.right)
	if ok {
		verifAssert("C16.window.step.edge", nr == verifIteU64(s <= right, right, s))
		verifAssert("C16.window.step.marksNew", verifAnd(nr-s < 64, (w.bitmap>>((nr-s)&63))&1 == 1))
		verifAssert("C16.window.step.invariant", verifAnd(verifImplies(nr > 0, w.bitmap&1 == 1), verifImplies(nr < 63, w.bitmap>>((nr+1)&63) == 0)))
		// every other number keeps its mark while it stays representable, and no mark appears from nowhere
		x := verifNondetU64("other")
		verifAssume(x <= right && right-x < 64 && x != s)
		wasMarked := (bm>>((right-x)&63))&1 == 1
		isMarked := (w.bitmap>>((nr-x)&63))&1 == 1
		verifAssert("C16.window.step.keepsMarks", verifImplies(verifAnd(wasMarked, nr-x < eff), isMarked))
		verifAssert("C16.window.step.noSpuriousMarks", verifImplies(verifAnd(!wasMarked, nr-x < 64), !isMarked))
	} else {
		verifAssert("C16.window.step.rejectKeepsState", verifAnd(nr == right, w.bitmap == bm))
	}
}
