//go:build verif

package tlcp

//verif:twin dtlcp

import "hash"

// C04 — key schedule against an independent reading of GB/T 38636-2020 6.5 (P_SM3 as in RFC 5246 section 5),
// with HMAC-SM3 and SM3 as SHARED uninterpreted functions: the real pHash / prf12 / masterFromPreMasterSecret /
// keysFromMasterSecret / finishedHash.clientSum / serverSum / establishKeys of both roles.
//
//verif:replacecall crypto/hmac.New verif_hmac_New
//verif:replacecall github.com/emmansun/gmsm/sm3.New verif_sm3_New
//
//verif:assume E5 (key schedule): HMAC-SM3 is an uninterpreted function of (key, message), shared by the code under test and the reference
//verif:assume E4 (key schedule): SM3 is an uninterpreted function of its input

type verifHMAC struct {
	key []byte
	buf []byte
}

func (h *verifHMAC) Write(p []byte) (int, error) { h.buf = append(h.buf, p...); return len(p), nil }
func (h *verifHMAC) Sum(b []byte) []byte {
	if len(vhmacInputs) < 8 {
		vhmacInputs = append(vhmacInputs, append([]byte(nil), h.buf...))
		vhmacKeys = append(vhmacKeys, append([]byte(nil), h.key...))
	}
	return append(b, verifUF("hmac", 32, h.key, h.buf)...)
}
func (h *verifHMAC) Reset()                      { h.buf = nil }
func (h *verifHMAC) Size() int                   { return 32 }
func (h *verifHMAC) BlockSize() int              { return 64 }

func verif_hmac_New(f func() hash.Hash, key []byte) hash.Hash {
	return &verifHMAC{key: append([]byte(nil), key...)}
}

// log of the first MAC computations (key, message), for harnesses that reason about what was authenticated
var vhmacInputs, vhmacKeys [][]byte

type verifSM3 struct{ buf []byte }

func (h *verifSM3) Write(p []byte) (int, error) { h.buf = append(h.buf, p...); return len(p), nil }
func (h *verifSM3) Sum(b []byte) []byte         { return append(b, verifUF("sm3", 32, h.buf)...) }
func (h *verifSM3) Reset()                      { h.buf = nil }
func (h *verifSM3) Size() int                   { return 32 }
func (h *verifSM3) BlockSize() int              { return 64 }

func verif_sm3_New() hash.Hash { return &verifSM3{} }

// independent reading of the standard: P_SM3(secret, seed) = HMAC(secret, A(1)+seed) + HMAC(secret, A(2)+seed) + ...
// with A(0) = seed, A(i) = HMAC(secret, A(i-1))
func refPHash(n int, secret, seed []byte) []byte {
	a := verifUF("hmac", 32, secret, seed)
	var out []byte
	for len(out) < n {
		out = append(out, verifUF("hmac", 32, secret, append(append([]byte(nil), a...), seed...))...)
		a = verifUF("hmac", 32, secret, a)
	}
	return out[:n]
}

func cat(parts ...[]byte) []byte {
	var r []byte
	for _, p := range parts {
		r = append(r, p...)
	}
	return r
}

func eqBytes(id string, a, b []byte) {
	verifAssert(id+".len", len(a) == len(b))
	for i := 0; i < len(a) && i < len(b); i++ {
		verifAssert(id+".byte", a[i] == b[i])
	}
}

//verif:harness props=C04 paths=200 reach=done
func VerifHarness_C04_keyschedule() {
	suiteID := []uint16{ECC_SM4_GCM_SM3, ECC_SM4_CBC_SM3, ECDHE_SM4_GCM_SM3, ECDHE_SM4_CBC_SM3}[verifSplitInt("suite", 0, 3)]
	suite := cipherSuites[suiteID]
	pre := verifNondetBytes("premaster", 48)
	cr := verifNondetBytes("clientRandom", 32)
	sr := verifNondetBytes("serverRandom", 32)
	master := masterFromPreMasterSecret(VersionTLCP, suite, pre, cr, sr)
	eqBytes("C04.ks.master", master, refPHash(48, pre, cat([]byte("master secret"), cr, sr)))

	_, cMAC, sMAC, cKey, sKey, cIV, sIV := keysFromMasterSecret(VersionTLCP, suite, master, cr, sr, suite.macLen, suite.keyLen, suite.ivLen)
	ivLen := 16
	macLen := 32
	if suiteID == ECC_SM4_GCM_SM3 || suiteID == ECDHE_SM4_GCM_SM3 {
		ivLen, macLen = 4, 0
	}
	verifAssert("C04.ks.suiteLengths", suite.macLen == macLen && suite.keyLen == 16 && suite.ivLen == ivLen)
	n := 2*macLen + 2*16 + 2*ivLen
	block := refPHash(n, master, cat([]byte("key expansion"), sr, cr))
	o := 0
	eqBytes("C04.ks.clientMAC", cMAC, block[o:o+macLen])
	o += macLen
	eqBytes("C04.ks.serverMAC", sMAC, block[o:o+macLen])
	o += macLen
	eqBytes("C04.ks.clientKey", cKey, block[o:o+16])
	o += 16
	eqBytes("C04.ks.serverKey", sKey, block[o:o+16])
	o += 16
	eqBytes("C04.ks.clientIV", cIV, block[o:o+ivLen])
	o += ivLen
	eqBytes("C04.ks.serverIV", sIV, block[o:o+ivLen])

	// Finished values: PRF(master, label, SM3(transcript))[0:12]
	fh := newFinishedHash(VersionTLCP, suite)
	t1 := verifNondetBytes("transcript1", verifSplitInt("t1len", 0, 3))
	t2 := verifNondetBytes("transcript2", verifSplitInt("t2len", 0, 3))
	fh.Write(t1)
	fh.Write(t2)
	digest := verifUF("sm3", 32, cat(t1, t2))
	eqBytes("C04.ks.clientFinished", fh.clientSum(master), refPHash(12, master, cat([]byte("client finished"), digest)))
	eqBytes("C04.ks.serverFinished", fh.serverSum(master), refPHash(12, master, cat([]byte("server finished"), digest)))
	verifReach("done")
}

// C04 — key direction: the client installs (server key, server IV, server MAC) for reading and the client
// triple for writing, the server the opposite; CBC readers get a decrypter.
var vdir struct {
	n      int
	key    [4][]byte
	iv     [4][]byte
	isRead [4]bool
	macKey [4][]byte
	nm     int
}

type verifDirCipher struct{ idx int }
type verifDirMAC struct {
	verifHMAC
	idx int
}

func (a *verifDirCipher) NonceSize() int                                 { return 8 }
func (a *verifDirCipher) Overhead() int                                  { return 16 }
func (a *verifDirCipher) explicitNonceLen() int                          { return 8 }
func (a *verifDirCipher) Seal(d, n, p, ad []byte) []byte                 { return d }
func (a *verifDirCipher) Open(d, n, c, ad []byte) ([]byte, error)        { return d, nil }

func dirSuite(id uint16) *cipherSuite {
	cs := *cipherSuites[id]
	if cs.aead != nil {
		cs.aead = func(key, nonce []byte) aead {
			i := vdir.n
			vdir.key[i], vdir.iv[i] = append([]byte(nil), key...), append([]byte(nil), nonce...)
			vdir.n++
			return &verifDirCipher{i}
		}
	} else {
		cs.cipher = func(key, iv []byte, isRead bool) interface{} {
			i := vdir.n
			vdir.key[i], vdir.iv[i], vdir.isRead[i] = append([]byte(nil), key...), append([]byte(nil), iv...), isRead
			vdir.n++
			return &verifDirCipher{i}
		}
		cs.mac = func(key []byte) hash.Hash {
			i := vdir.nm
			vdir.macKey[i] = append([]byte(nil), key...)
			vdir.nm++
			return &verifDirMAC{idx: i}
		}
	}
	return &cs
}

//verif:harness props=C04 paths=200 reach=done
func VerifHarness_C04_direction() {
	suiteID := []uint16{ECC_SM4_GCM_SM3, ECC_SM4_CBC_SM3, ECDHE_SM4_GCM_SM3, ECDHE_SM4_CBC_SM3}[verifSplitInt("suite", 0, 3)]
	suite := dirSuite(suiteID)
	master := verifNondetBytes("master", 48)
	cr := verifNondetBytes("clientRandom", 32)
	sr := verifNondetBytes("serverRandom", 32)
	_, cMAC, sMAC, cKey, sKey, cIV, sIV := keysFromMasterSecret(VersionTLCP, suite, master, cr, sr, suite.macLen, suite.keyLen, suite.ivLen)
	cbc := suite.aead == nil
	client := verifSplitInt("role", 0, 1) == 0
	c := verifBareConn(&Config{}, client)
	c.vers = VersionTLCP
	if client {
		hs := &clientHandshakeState{c: c, suite: suite, masterSecret: master, hello: &clientHelloMsg{random: cr}, serverHello: &serverHelloMsg{random: sr}}
		verifAssert("C04.direction.establish", hs.establishKeys() == nil)
	} else {
		hs := &serverHandshakeState{c: c, suite: suite, masterSecret: master, clientHello: &clientHelloMsg{random: cr}, hello: &serverHelloMsg{random: sr}}
		verifAssert("C04.direction.establish", hs.establishKeys() == nil)
	}
	in, okIn := c.in.nextCipher.(*verifDirCipher)
	out, okOut := c.out.nextCipher.(*verifDirCipher)
	verifAssert("C04.direction.ciphersInstalled", okIn && okOut && vdir.n == 2)
	if !okIn || !okOut {
		return
	}
	// the reading side uses the PEER's write keys
	rKey, rIV, rMAC, wKey, wIV, wMAC := sKey, sIV, sMAC, cKey, cIV, cMAC
	if !client {
		rKey, rIV, rMAC, wKey, wIV, wMAC = cKey, cIV, cMAC, sKey, sIV, sMAC
	}
	eqBytes("C04.direction.readKey", vdir.key[in.idx], rKey)
	eqBytes("C04.direction.readIV", vdir.iv[in.idx], rIV)
	eqBytes("C04.direction.writeKey", vdir.key[out.idx], wKey)
	eqBytes("C04.direction.writeIV", vdir.iv[out.idx], wIV)
	if cbc {
		verifAssert("C04.direction.readerDecrypts", vdir.isRead[in.idx] && !vdir.isRead[out.idx])
		mi, ok1 := c.in.nextMac.(*verifDirMAC)
		mo, ok2 := c.out.nextMac.(*verifDirMAC)
		verifAssert("C04.direction.macsInstalled", ok1 && ok2)
		if ok1 && ok2 {
			eqBytes("C04.direction.readMAC", vdir.macKey[mi.idx], rMAC)
			eqBytes("C04.direction.writeMAC", vdir.macKey[mo.idx], wMAC)
		}
	} else {
		verifAssert("C04.direction.noMACForAEAD", c.in.nextMac == nil && c.out.nextMac == nil)
	}
	verifReach("done")
}
