//go:build verif

package tlcp

func verifBareConn(cfg *Config, isClient bool) *Conn {
	return &Conn{config: cfg, isClient: isClient}
}
