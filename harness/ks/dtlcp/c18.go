//go:build verif

package dtlcp

import "bytes"

// C18 — cookies (dtlcp/cookie.go, marshalForCookie, effectiveCookieSecret) with HMAC-SM3 as an
// uninterpreted function (shared with the key-schedule harnesses of this group).

func arbHello(tag string) *clientHelloMsg {
	m := &clientHelloMsg{vers: verifNondetU16(tag + ".vers"), random: verifNondetBytes(tag+".random", 32)}
	m.sessionId = verifNondetBytes(tag+".sid", []int{0, 1, 32}[verifSplitInt(tag+".sidlen", 0, 2)])
	for i := verifSplitInt(tag+".nsuites", 0, 2); i > 0; i-- {
		m.cipherSuites = append(m.cipherSuites, verifNondetU16(tag+".suite"))
	}
	m.compressionMethods = verifNondetBytes(tag+".comp", verifSplitInt(tag+".ncomp", 1, 2))
	return m
}

func sameHelloParams(a, b *clientHelloMsg) bool {
	if a.vers != b.vers || !bytes.Equal(a.random, b.random) || !bytes.Equal(a.sessionId, b.sessionId) ||
		len(a.cipherSuites) != len(b.cipherSuites) || !bytes.Equal(a.compressionMethods, b.compressionMethods) {
		return false
	}
	for i := range a.cipherSuites {
		if a.cipherSuites[i] != b.cipherSuites[i] {
			return false
		}
	}
	return true
}

// The cookie covers version, random, session id, cipher suites and compression methods injectively.
//
//verif:harness props=C18 paths=20000 reach=same,different
func VerifHarness_C18_encoding() {
	a, b := arbHello("a"), arbHello("b")
	pa, pb := a.marshalForCookie(), b.marshalForCookie()
	if bytes.Equal(pa, pb) {
		verifReach("same")
		verifAssert("C18.encoding.injective", sameHelloParams(a, b))
	} else {
		verifReach("different")
		verifAssert("C18.encoding.functional", !sameHelloParams(a, b))
	}
}

// The cookie is HMAC(secret, address, parameters) bound injectively to the (address, parameters) pair, and
// verification accepts exactly that 32-byte value.
//
//verif:harness props=C18 paths=20000 reach=accepted,rejected
func VerifHarness_C18_cookie() {
	secret := verifNondetBytes("secret", verifSplitInt("secretlen", 1, 3))
	addrA := string(verifNondetBytes("addrA", verifSplitInt("addrAlen", 1, 3)))
	addrB := string(verifNondetBytes("addrB", verifSplitInt("addrBlen", 1, 3)))
	pA := verifNondetBytes("paramsA", verifSplitInt("paramsAlen", 2, 4))
	pB := verifNondetBytes("paramsB", verifSplitInt("paramsBlen", 2, 4))
	ca := generateCookie(secret, addrA, pA)
	cb := generateCookie(secret, addrB, pB)
	verifAssert("C18.cookie.is32Bytes", len(ca) == 32 && len(cb) == 32)
	// the MAC'd byte strings of two different (address, parameters) pairs differ, so with a collision-free
	// MAC the cookies differ: ask for the MAC inputs through the uninterpreted function's input log
	inA, inB := vhmacInputs[0], vhmacInputs[1]
	if addrA != addrB || !bytes.Equal(pA, pB) {
		verifAssert("C18.cookie.boundToAddressAndParams", !bytes.Equal(inA, inB))
	}
	// verification: an arbitrary candidate of length 0..33 is accepted iff it is exactly the issued value
	cand := verifNondetBytes("candidate", verifSplitInt("candlen", 0, 33))
	ok := verifyCookie(secret, addrA, pA, cand)
	if ok {
		verifReach("accepted")
		verifAssert("C18.cookie.acceptsOnlyExactValue", bytes.Equal(cand, ca))
	} else {
		verifReach("rejected")
		verifAssert("C18.cookie.rejectsOnlyOtherValues", !bytes.Equal(cand, ca))
	}
	// another secret: the MAC key differs
	verifAssert("C18.cookie.keyedWithSecret", bytes.Equal(vhmacKeys[0], secret))
}

// When no secret is configured each server connection draws its own 32 random bytes, once.
//
//verif:harness props=C18 paths=200 reach=done
func VerifHarness_C18_secret() {
	cfg := &Config{Rand: verifRandLog{}}
	how := verifSplitInt("configured", 0, 2) // 0: nil, 1: a secret, 2: an empty non-nil slice (= no secret configured)
	configured := how == 1
	if configured {
		cfg.CookieSecret = verifNondetBytes("cfgSecret", 3)
	} else if how == 2 {
		cfg.CookieSecret = make([]byte, 0)
	}
	c := verifBareConn(cfg, false)
	s1 := c.effectiveCookieSecret()
	s2 := c.effectiveCookieSecret()
	verifAssert("C18.secret.stablePerConnection", bytes.Equal(s1, s2))
	if configured {
		verifAssert("C18.secret.configuredUsed", bytes.Equal(s1, cfg.CookieSecret) && len(vrandLog) == 0)
	} else {
		verifAssert("C18.secret.randomPerConnection", len(s1) == 32 && len(vrandLog) == 32 && bytes.Equal(s1, vrandLog))
	}
	verifReach("done")
}

var vrandLog []byte

type verifRandLog struct{}

func (verifRandLog) Read(p []byte) (int, error) {
	b := verifNondetBytes("rand", len(p))
	copy(p, b)
	vrandLog = append(vrandLog, b...)
	return len(p), nil
}
