//go:build verif

package dtlcp

func verifBareConn(cfg *Config, isClient bool) *Conn {
	return &Conn{config: cfg, isClient: isClient}
}
