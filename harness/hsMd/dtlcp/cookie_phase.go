//go:build verif

package dtlcp

import (
	"bytes"
	"context"
	"errors"
	"hash"
	"net"
	"time"
)

// DTLCP endpoint drivers for the cookie phase, cut M: the REAL serverHandshake / clientHandshake cookie loops
// (readClientHello, marshalForCookie, effectiveCookieSecret, verifyCookie, generateCookie, readNextClientHello,
// the client's HelloVerifyRequest handling and retransmission timer use) against a scripted peer.
//
//verif:replace Conn.readHandshake
//verif:replace Conn.writeHandshakeRecord
//verif:replace Conn.flush
//verif:replace Conn.sendAlert
//verif:replace serverHandshakeState.handshake
//verif:replace clientHandshakeState.handshake
//verif:replacecall crypto/hmac.New verif_hmac_New
//
//verif:assume cut M (dtlcp cookie phase): readHandshake / writeHandshakeRecord / flush / sendAlert are stubs; the rest of the handshake after the cookie phase (hs.handshake) is a stub that records that the endpoint committed
//verif:assume E5 (cookie): HMAC-SM3 is an uninterpreted function of (key, message)

type verifHMAC struct {
	key []byte
	buf []byte
}

func (h *verifHMAC) Write(p []byte) (int, error) { h.buf = append(h.buf, p...); return len(p), nil }
func (h *verifHMAC) Sum(b []byte) []byte         { return append(b, verifUF("hmac", 32, h.key, h.buf)...) }
func (h *verifHMAC) Reset()                      { h.buf = nil }
func (h *verifHMAC) Size() int                   { return 32 }
func (h *verifHMAC) BlockSize() int              { return 64 }

func verif_hmac_New(f func() hash.Hash, key []byte) hash.Hash {
	return &verifHMAC{key: append([]byte(nil), key...)}
}

type verifAddr struct{}

func (verifAddr) Network() string { return "v" }
func (verifAddr) String() string  { return "peer" }

type verifNullPConn struct{ deadlines int }

func (p *verifNullPConn) ReadFrom(b []byte) (int, net.Addr, error)  { return 0, verifAddr{}, errors.New("eof") }
func (p *verifNullPConn) WriteTo(b []byte, a net.Addr) (int, error) { return len(b), nil }
func (p *verifNullPConn) Close() error                              { return nil }
func (p *verifNullPConn) LocalAddr() net.Addr                       { return verifAddr{} }
func (p *verifNullPConn) SetDeadline(t time.Time) error             { return nil }
func (p *verifNullPConn) SetReadDeadline(t time.Time) error         { p.deadlines++; return nil }
func (p *verifNullPConn) SetWriteDeadline(t time.Time) error        { return nil }

type verifRand struct{}

func (verifRand) Read(p []byte) (int, error) {
	copy(p, verifNondetBytes("rand", len(p)))
	return len(p), nil
}

type verifTimeout struct{}

func (verifTimeout) Error() string   { return "verif: i/o timeout" }
func (verifTimeout) Timeout() bool   { return true }
func (verifTimeout) Temporary() bool { return true }

var vd struct {
	// server side
	hellos     int
	lastParams []byte // marshalForCookie of the hello delivered last
	prevParams []byte
	lastCookie []byte
	lastSize   int
	hvrs       int
	otherMsgs  int
	hvrTooBig  bool
	committed  bool
	certCalls  int
	// client side
	owesFlight bool // the peer is waiting for our next flight
	readWhileOwing bool
	timeouts   int
	script     int
	helloSent  int
	lastCH     *clientHelloMsg
	hvrCookie  []byte
	alerts     int
	secret     []byte
	// client side, faulty network (C19_client_hello_retransmission)
	faulty     bool
	reads      int
	cause      int      // why the client is about to send a hello again: 1 timeout, 2 HelloVerifyRequest
	helloBytes [][]byte // every ClientHello written, marshalled
	helloCause []int
	hadCookie  []bool   // whether the client already held a cookie when the cause occurred
	finalHello []byte   // the ClientHello the client enters into its transcript
}

func (c *Conn) flush() (int, error)       { return 0, nil }
func (c *Conn) sendAlert(err alert) error { vd.alerts++; return err }

func (hs *serverHandshakeState) handshake() error {
	vd.committed = true
	return errors.New("verif: end of the cookie phase")
}

func (hs *clientHandshakeState) handshake() error {
	vd.committed = true
	if hs.hello != nil {
		vd.finalHello, _ = hs.hello.marshal()
	}
	return errors.New("verif: end of the cookie phase")
}

func (c *Conn) writeHandshakeRecord(msg handshakeMessage, transcript transcriptHash) (int, error) {
	data, err := msg.marshal()
	if err != nil {
		return 0, err
	}
	switch m := msg.(type) {
	case *helloVerifyRequestMsg:
		vd.hvrs++
		if len(data) > vd.lastSize {
			vd.hvrTooBig = true
		}
		vd.hvrCookie = m.cookie
	case *clientHelloMsg:
		vd.helloSent++
		vd.lastCH = m
		vd.owesFlight = false
		if vd.faulty {
			vd.helloBytes = append(vd.helloBytes, append([]byte(nil), data...))
			vd.helloCause = append(vd.helloCause, vd.cause)
		}
	default:
		vd.otherMsgs++
	}
	return len(data), nil
}

// readHandshake: in the server harness the peer sends ClientHellos; in the client harness it follows the
// honest server's script (HelloVerifyRequest, then ServerHello), answering every flight at once.
func (c *Conn) readHandshake(transcript transcriptHash) (interface{}, error) {
	if c.isClient && vd.faulty {
		// a network that may lose the client's or the server's datagrams: every read either times out or
		// delivers a HelloVerifyRequest (first or retransmitted) or the ServerHello
		vd.reads++
		if vd.reads > verifBound(4, 6) {
			return nil, errors.New("verif: end of script")
		}
		switch verifSplitInt("event", 0, 2) {
		case 0:
			vd.timeouts++
			vd.cause = 1
			vd.hadCookie = append(vd.hadCookie, vd.lastCH != nil && len(vd.lastCH.cookie) > 0)
			return nil, verifTimeout{}
		case 1:
			vd.cause = 2
			vd.hadCookie = append(vd.hadCookie, vd.lastCH != nil && len(vd.lastCH.cookie) > 0)
			return &helloVerifyRequestMsg{serverVersion: VersionTLCP, cookie: verifNondetBytes("hvr.cookie", 32)}, nil
		}
		return &serverHelloMsg{vers: VersionTLCP, random: verifNondetBytes("sh.random", 32), cipherSuite: ECC_SM4_GCM_SM3}, nil
	}
	if c.isClient {
		if vd.owesFlight {
			vd.readWhileOwing = true
			// nothing will ever arrive: the peer is waiting for us
			vd.timeouts++
			return nil, verifTimeout{}
		}
		vd.script++
		switch vd.script {
		case 1:
			vd.owesFlight = true
			return &helloVerifyRequestMsg{serverVersion: VersionTLCP, cookie: verifNondetBytes("hvr.cookie", 32)}, nil
		case 2:
			return &serverHelloMsg{vers: VersionTLCP, random: verifNondetBytes("sh.random", 32), cipherSuite: ECC_SM4_GCM_SM3}, nil
		}
		return nil, errors.New("verif: end of script")
	}
	if vd.hellos >= 3 {
		return nil, errors.New("verif: end of script")
	}
	vd.hellos++
	ch := &clientHelloMsg{vers: verifNondetU16("ch.vers"), random: verifNondetBytes("ch.random", 32),
		cipherSuites: []uint16{verifNondetU16("ch.suite")}, compressionMethods: []byte{verifNondetByte("ch.comp")}}
	params := ch.marshalForCookie()
	switch verifSplitInt("cookieKind", 0, 3) {
	case 0: // none
	case 1: // arbitrary bytes of any plausible length
		ch.cookie = verifNondetBytes("cookie", []int{1, 31, 32, 33}[verifSplitInt("cookieLen", 0, 3)])
	case 2: // the value the server issues for exactly this hello (reference: the real generateCookie)
		ch.cookie = generateCookie(vd.secret, "peer", params)
	case 3: // a cookie the server issued earlier for ANOTHER hello
		if vd.lastParams == nil {
			verifAssume(false)
		}
		ch.cookie = generateCookie(vd.secret, "peer", vd.lastParams)
	}
	vd.prevParams = vd.lastParams
	vd.lastParams = params
	vd.lastCookie = ch.cookie
	data, _ := ch.marshal()
	vd.lastSize = len(data)
	return ch, nil
}

// C18 — until a ClientHello arrives whose cookie is the value for its own fields, address and the server's
// secret, the server writes nothing but HelloVerifyRequests no larger than the request, and does not commit.
//
//verif:harness props=C18 paths=100000 reach=committed,notCommitted
func VerifHarness_C18_server_cookie_phase() {
	vd.secret = verifNondetBytes("secret", 2)
	cfg := &Config{Rand: verifRand{}, CookieSecret: vd.secret}
	cfg.GetCertificate = func(*ClientHelloInfo) (*Certificate, error) { vd.certCalls++; return nil, errors.New("no") }
	cfg.GetKECertificate = func(*ClientHelloInfo) (*Certificate, error) { vd.certCalls++; return nil, errors.New("no") }
	c := &Conn{pconn: &verifNullPConn{}, remoteAddr: verifAddr{}, config: cfg}
	_ = c.serverHandshake(context.Background())
	verifAssert("C18.server.onlyHelloVerifyRequestsBeforeCommit", vd.otherMsgs == 0)
	verifAssert("C18.server.noCertificateSelectionBeforeCommit", vd.certCalls == 0)
	verifAssert("C18.server.helloVerifyRequestNotLargerThanRequest", !vd.hvrTooBig)
	if vd.committed {
		verifReach("committed")
		want := generateCookie(vd.secret, "peer", vd.lastParams)
		verifAssert("C18.server.commitsOnlyOnValidCookie", bytes.Equal(vd.lastCookie, want))
	} else {
		verifReach("notCommitted")
	}
}

// C19 — with a peer that answers every flight at once and never retransmits, the client never waits for input
// while it owes the next flight: no retransmission timeout can expire in a fault-free handshake.
//
//verif:harness props=C19 paths=2000 reach=committed
func VerifHarness_C19_client_turns() {
	cfg := &Config{Rand: verifRand{}, Time: func() time.Time { return time.Time{} }}
	c := &Conn{pconn: &verifNullPConn{}, remoteAddr: verifAddr{}, config: cfg, isClient: true}
	armed := 0
	c.retransmitTimer = newRetransmitTimer(time.Second, 60*time.Second, func(d time.Duration) *TimerHandle {
		armed++
		return &TimerHandle{Stop: func() bool { return true }}
	})
	_ = c.clientHandshake(context.Background())
	verifAssert("C19.turns.neverReadsWhileOwingAFlight", !vd.readWhileOwing)
	verifAssert("C19.turns.noTimeoutWithoutFault", vd.timeouts == 0)
	verifAssert("C19.turns.reachesServerHello", vd.committed)
	if vd.committed {
		verifReach("committed")
		verifAssert("C19.turns.secondHelloCarriesCookie", vd.helloSent == 2 && vd.lastCH != nil && len(vd.lastCH.cookie) == 32)
	}
}

// C19 — retransmission in the client's hello phase: whenever the client sends its ClientHello again because a
// read timed out, or because the server's HelloVerifyRequest arrived a second time, the message is byte for
// byte the one it sent before (same message_seq: the server may already have entered that hello into its
// transcript); a first HelloVerifyRequest makes it send a NEW hello, next message_seq, carrying the cookie;
// the hello the client enters into its own transcript is the last one it sent.
//
//verif:harness props=C19 paths=20000 reach=committed,retransmitted
func VerifHarness_C19_client_hello_retransmission() {
	vd.faulty = true
	cfg := &Config{Rand: verifRand{}, Time: func() time.Time { return time.Time{} }}
	c := &Conn{pconn: &verifNullPConn{}, remoteAddr: verifAddr{}, config: cfg, isClient: true}
	c.retransmitTimer = newRetransmitTimer(time.Second, 60*time.Second, func(d time.Duration) *TimerHandle {
		return &TimerHandle{Stop: func() bool { return true }}
	})
	_ = c.clientHandshake(context.Background())
	for i := 1; i < len(vd.helloBytes) && i-1 < len(vd.hadCookie); i++ {
		prev, cur := vd.helloBytes[i-1], vd.helloBytes[i]
		if len(prev) < 12 || len(cur) < 12 {
			verifAssert("C19.react.helloIsAHandshakeMessage", false)
			continue
		}
		retransmission := vd.helloCause[i] == 1 || (vd.helloCause[i] == 2 && vd.hadCookie[i-1])
		if retransmission {
			verifReach("retransmitted")
			verifAssert("C19.react.helloRetransmissionByteIdentical", bytes.Equal(prev, cur))
		} else {
			seqPrev := int(prev[4])<<8 | int(prev[5])
			seqCur := int(cur[4])<<8 | int(cur[5])
			verifAssert("C19.react.newHelloTakesNextMessageSeq", seqCur == seqPrev+1)
		}
	}
	if vd.committed {
		verifReach("committed")
		n := len(vd.helloBytes)
		verifAssert("C19.react.transcriptHelloIsTheOneSent", n >= 1 && bytes.Equal(vd.finalHello, vd.helloBytes[n-1]))
	}
}
