//go:build verif

package dtlcp

import (
	"net"
	"time"
)

type verifNullPConn struct{ verifNullConn }

func (p *verifNullPConn) ReadFrom(b []byte) (int, net.Addr, error)  { return 0, verifAddr{}, verifTimeoutErr{} }
func (p *verifNullPConn) WriteTo(b []byte, a net.Addr) (int, error) {
	vdg.datagrams = append(vdg.datagrams, append([]byte(nil), b...))
	return len(b), nil
}

type verifTimeoutErr struct{}

func (verifTimeoutErr) Error() string   { return "verif: i/o timeout" }
func (verifTimeoutErr) Timeout() bool   { return true }
func (verifTimeoutErr) Temporary() bool { return true }

func verifDriverConn(cfg *Config, isClient bool) *Conn {
	c := &Conn{pconn: &verifNullPConn{}, remoteAddr: verifAddr{}, config: cfg, isClient: isClient}
	c.retransmitTimer = newRetransmitTimer(time.Second, 60*time.Second, func(d time.Duration) *TimerHandle {
		return &TimerHandle{Stop: func() bool { return true }}
	})
	c.replayWindow = newReplayWindow(64)
	return c
}

//verif:replace verifyCookie
//verif:assume cut M (dtlcp drivers): verifyCookie accepts every non-empty cookie (the cookie phase is checked by the hsMd group); the driver's ClientHello always carries one

func verifyCookie(secret []byte, clientAddr string, clientParams, cookie []byte) bool { return true }

func verifDriverCookie(ch *clientHelloMsg) {
	ch.cookie = verifNondetBytes("ch.cookie", 32)
}

const verifDatagramStack = true

func verifIsHelloVerifyRequest(msg handshakeMessage) bool {
	_, ok := msg.(*helloVerifyRequestMsg)
	return ok
}

// the datagram stack keeps its real buffering / flushing / retransmission snapshot: the message stubs hand a
// marker of every record to the real write(), and flush is the real one
func verifDriverWrite(c *Conn, data []byte)  { c.write(append([]byte{0xAA}, data...)) }
func verifDriverFlush(c *Conn) (int, error) { return c.flush__orig() }
func verifDriverTimeout() error              { return verifTimeoutErr{} }
