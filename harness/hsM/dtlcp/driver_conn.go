//go:build verif

package dtlcp

import (
	"context"
	"net"
	"time"
)

type verifNullPConn struct{ verifNullConn }

func (p *verifNullPConn) ReadFrom(b []byte) (int, net.Addr, error)  { return 0, verifAddr{}, verifTimeoutErr{} }
func (p *verifNullPConn) WriteTo(b []byte, a net.Addr) (int, error) {
	vdg.datagrams = append(vdg.datagrams, append([]byte(nil), b...))
	return len(b), nil
}

type verifTimeoutErr struct{}

func (verifTimeoutErr) Error() string   { return "verif: i/o timeout" }
func (verifTimeoutErr) Timeout() bool   { return true }
func (verifTimeoutErr) Temporary() bool { return true }

func verifDriverConn(cfg *Config, isClient bool) *Conn {
	c := &Conn{pconn: &verifNullPConn{}, remoteAddr: verifAddr{}, config: cfg, isClient: isClient}
	c.retransmitTimer = newRetransmitTimer(time.Second, 60*time.Second, func(d time.Duration) *TimerHandle {
		return &TimerHandle{Stop: func() bool { return true }}
	})
	c.replayWindow = newReplayWindow(64)
	return c
}

//verif:replace verifyCookie
//verif:assume cut M (dtlcp drivers): verifyCookie accepts every non-empty cookie (the cookie phase is checked by the hsMd group); the driver's ClientHello always carries one

func verifyCookie(secret []byte, clientAddr string, clientParams, cookie []byte) bool { return true }

func verifDriverCookie(ch *clientHelloMsg) {
	ch.cookie = verifNondetBytes("ch.cookie", 32)
}

const verifDatagramStack = true

func verifIsHelloVerifyRequest(msg handshakeMessage) bool {
	_, ok := msg.(*helloVerifyRequestMsg)
	return ok
}

// the datagram stack keeps its real buffering / flushing / retransmission snapshot: the message stubs hand a
// marker of every record to the real write(), and flush is the real one
// (each marker is a well-formed record — header with type, version, a running sequence number and the true
// length — because the real writeFlight packs whole records into datagrams by parsing those headers)
var verifDriverRecSeq int

func verifDriverWrite(c *Conn, data []byte) {
	typ := byte(recordTypeHandshake)
	if len(data) == 2 && data[0] == byte(recordTypeChangeCipherSpec) {
		typ, data = byte(recordTypeChangeCipherSpec), data[1:]
	}
	hdr := []byte{typ, 1, 1, 0, 0, 0, 0, 0, 0, 0, byte(verifDriverRecSeq), byte(len(data) >> 8), byte(len(data))}
	verifDriverRecSeq++
	c.write(append(hdr, data...))
}
func verifDriverFlush(c *Conn) (int, error) {
	n, err := c.flush__orig()
	if n > 0 {
		vdg.flushed = true
	}
	return n, err
}

// verifDriverWaiting: called whenever the endpoint starts a read. The first read after a flush is the wait for
// the peer's answer to the flight just sent: on the server (whose retransmission is driven by its timer, the
// client's by the read deadline) the retransmission timer must be armed at that moment.
func verifDriverWaiting(c *Conn) {
	if vdg.flushed {
		vdg.flushed = false
		vdg.armedAtWait = append(vdg.armedAtWait, c.retransmitTimer != nil && c.retransmitTimer.handle != nil)
	}
}
func verifDriverTimeout() error              { return verifTimeoutErr{} }

// C19 — the server's retransmission timer is armed whenever it has sent a flight and starts waiting for the
// client's answer: after the full handshake's ServerHello…ServerHelloDone flight and after the abbreviated
// handshake's ServerHello, ChangeCipherSpec, Finished flight (otherwise a lost flight is never resent and,
// in the abbreviated handshake, the client — which has nothing of its own to resend but the hello — cannot
// recover either). The client follows the honest script.
//
//verif:harness props=C19 paths=2000 reach=waitedFull,waitedResumed
func VerifHarness_C19_server_timer_armed() {
	stubSuites()
	cache := &verifCache{}
	cfg := &Config{Rand: verifRand{}, Time: func() time.Time { return time.Time{} }, SessionCache: cache}
	cfg.Certificates = []Certificate{
		{Certificate: [][]byte{{1}}, PrivateKey: verifServerKey{}},
		{Certificate: [][]byte{{2}}, PrivateKey: verifServerKey{}},
	}
	resumed := verifSplitInt("resumed", 0, 1) == 1
	if resumed {
		cache.have = true
		cache.sess = &SessionState{sessionId: verifNondetBytes("sess.id", 32), vers: VersionTLCP, cipherSuite: ECC_SM4_GCM_SM3,
			masterSecret: verifNondetBytes("sess.master", 48)}
		vdg.script = []int{kCH, kFin}
	} else {
		vdg.script = []int{kCH, kCKE, kFin}
	}
	c := verifDriverConn(cfg, false)
	armed := 0
	c.retransmitTimer = newRetransmitTimer(time.Second, 60*time.Second, func(d time.Duration) *TimerHandle {
		armed++
		return &TimerHandle{Stop: func() bool { return true }}
	})
	_ = c.serverHandshake(context.Background())
	if len(vdg.armedAtWait) >= 1 {
		if c.didResume {
			verifReach("waitedResumed")
		} else {
			verifReach("waitedFull")
		}
	}
	verifTag("resumed", map[bool]int{false: 0, true: 1}[c.didResume])
	for _, a := range vdg.armedAtWait {
		verifAssert("C19.react.serverTimerArmedWhileWaitingForAnswer", a)
	}
}
