//go:build verif

package tlcp

//verif:twin dtlcp

import (
	"bytes"
	"context"
	"crypto"
	"crypto/ecdsa"
	"errors"
	"hash"
	"io"
	"time"

	x509 "github.com/emmansun/gmsm/smx509"
)

// Endpoint driver, cut M, server role: the REAL serverHandshake state machine (readClientHello,
// processClientHello, checkForResumption, pickCipherSuite, doFullHandshake / doResumeHandshake,
// establishKeys, readFinished, sendFinished, createSessionState) against a symbolic client.
//
//verif:replace Conn.processCertsFromClient
//verif:replace verifyHandshakeSignature
//
//verif:assume cut M (server): processCertsFromClient is a stub with an arbitrary verdict that installs as many certificate objects as the client sent (the real function is checked by the C07 certs harness); verifyHandshakeSignature is a stub with an arbitrary verdict whose key and transcript arguments are logged

var vs struct {
	cvCalls   int
	cvOK      bool
	cvPub     crypto.PublicKey
	cvSeed    []byte
	lastSum   []byte
	certCalls int
	chainOK   bool
	skxMade   int
	sentSID   []byte
	cvPos     int // length of the wire before the CertificateVerify message
	sawCV     bool
}

func (c *Conn) processCertsFromClient(certificate Certificate) error {
	vs.certCalls++
	if verifSplitInt("clientCertVerdict", 0, 1) == 0 {
		return errors.New("client certificates rejected")
	}
	n := len(certificate.Certificate)
	c.peerCertificates = nil
	for i := 0; i < n; i++ {
		c.peerCertificates = append(c.peerCertificates, &x509.Certificate{Raw: certificate.Certificate[i], PublicKey: &ecdsa.PublicKey{}})
	}
	if n > 0 && c.config.ClientAuth >= VerifyClientCertIfGiven {
		vs.chainOK = true
		c.verifiedChains = [][]*x509.Certificate{c.peerCertificates}
	}
	return nil
}

func verifyHandshakeSignature(sigType SignatureAlgorithm, pubkey crypto.PublicKey, h func() hash.Hash, tbs, sig []byte) error {
	vs.cvCalls++
	vs.cvPub = pubkey
	vs.cvSeed = append([]byte(nil), vg.lastSumInput...)
	if verifSplitInt("certVerifyVerdict", 0, 1) == 0 {
		return errors.New("bad CertificateVerify")
	}
	vs.cvOK = true
	return nil
}

type verifServerKey struct{ kind int }

func (k verifServerKey) Public() crypto.PublicKey {
	if k.kind == 0 {
		return &ecdsa.PublicKey{}
	}
	return nil
}
func (k verifServerKey) Sign(r io.Reader, digest []byte, opts crypto.SignerOpts) ([]byte, error) {
	return verifNondetBytes("sig", 4), nil
}
func (k verifServerKey) Decrypt(r io.Reader, msg []byte, opts crypto.DecrypterOpts) ([]byte, error) {
	return verifNondetBytes("plain", 48), nil
}

// C07 / C08 / C10 / C03 — the real server handshake against a symbolic client.
//
//verif:harness props=C07,C08,C10,C03,C12,C09,C04 twinprops=C07,C08,C10,C04 paths=1200000 tpaths=6000000 depth=300 reach=completedFull,completedResumed,failed
func VerifHarness_server_handshake() {
	stubSuites()
	cache := &verifCache{}
	policy := ClientAuthType(verifSplitInt("clientAuth", 0, 5))
	cfg := &Config{Rand: verifRand{}, Time: func() time.Time { return time.Time{} }, SessionCache: cache, ClientAuth: policy}
	cfg.Certificates = []Certificate{
		{Certificate: [][]byte{{1}}, PrivateKey: verifServerKey{}},
		{Certificate: [][]byte{{2}}, PrivateKey: verifServerKey{}},
	}
	switch verifSplitInt("suites", 0, verifBound(0, 2)) {
	case 1:
		cfg.CipherSuites = []uint16{ECC_SM4_CBC_SM3}
	case 2:
		cfg.CipherSuites = []uint16{ECDHE_SM4_GCM_SM3, ECC_SM4_GCM_SM3}
	}
	cache.lazy = func() *SessionState {
		if verifSplitInt("haveSession", 0, 1) == 0 {
			return nil
		}
		cs := &SessionState{sessionId: verifNondetBytes("sess.id", 32), vers: verifNondetU16("sess.vers"),
			masterSecret: verifNondetBytes("sess.master", 48*verifSplitInt("sess.hasMaster", 0, 1))}
		cs.cipherSuite = []uint16{ECC_SM4_GCM_SM3, ECDHE_SM4_GCM_SM3, 0x1234, ECC_SM4_CBC_SM3}[verifSplitInt("sess.suite", 0, verifBound(2, 3))]
		for i := verifSplitInt("sess.ncerts", 0, 1); i > 0; i-- {
			cs.peerCertificates = append(cs.peerCertificates, &x509.Certificate{Raw: []byte{9}, PublicKey: &ecdsa.PublicKey{}})
		}
		return cs
	}
	c := verifDriverConn(cfg, false)
	err := c.serverHandshake(context.Background())
	cached := cache.sess
	if err != nil {
		verifReach("failed")
		verifAssert("C12.server.notCompleteOnError", !c.handshakeComplete())
		verifAssert("C10.server.failedHandshakeCachesNothing", vg.puts == 0)
		verifAssert("C07.server.rejectedHandshakeLeavesNoSession", vg.puts == 0)
		return
	}
	verifAssert("C12.server.statusSet", c.handshakeComplete())
	ecdhe := c.cipherSuite == ECDHE_SM4_CBC_SM3 || c.cipherSuite == ECDHE_SM4_GCM_SM3
	certReqSent := false
	for i := 0; i < vg.nsent; i++ {
		if vg.sent[i] == int(typeCertificateRequest) {
			certReqSent = true
		}
	}
	ncli := len(c.peerCertificates)
	if c.didResume {
		verifReach("completedResumed")
		verifAssert("C08.server.legalOrderResumed", matchKinds([]int{kCH, kCCS, kFin}))
		verifAssert("C10.server.resumedOnlyIfCached", cached != nil)
		if cached != nil {
			verifAssert("C10.server.resumedSameVersionAndSuite", cached.vers == c.vers && cached.cipherSuite == c.cipherSuite)
			verifAssert("C10.server.resumedUsesCachedMaster", len(cached.masterSecret) == 48 && bytes.Equal(vg.srvKey, cached.masterSecret) && bytes.Equal(vg.cliKey, cached.masterSecret))
			verifAssert("C10.server.freshKeys", vg.keBlocks == 1)
			verifAssert("C10.server.echoesSessionId", len(vs.sentSID) == 32)
			// C07: a session may not be resumed under a policy the original handshake would not have satisfied
			verifAssert("C07.server.resumedRequiredCertPresent", !requiresClientCert(policy) || len(cached.peerCertificates) > 0)
			verifAssert("C07.server.resumedNoCertUnderNoClientCert", !(policy == NoClientCert && len(cached.peerCertificates) > 0) || ncli == 0)
			verifAssert("C07.server.resumedChainReverified", !(policy >= VerifyClientCertIfGiven && ncli > 0) || vs.chainOK)
		}
		verifAssert("C03.server.transcriptIsWireOrderResumed", bytes.Equal(vg.cliSeed, vg.wire[:vg.finPos]))
		verifAssert("C04.server.finishedOverWholeTranscript", bytes.Equal(vg.cliSeed, vg.wire[:vg.finPos]))
	} else {
		verifReach("completedFull")
		want := []int{kCH}
		if certReqSent {
			want = append(want, kCert)
		}
		want = append(want, kCKE)
		if ncli > 0 {
			want = append(want, kCertVerify)
		}
		want = append(want, kCCS, kFin)
		verifAssert("C08.server.legalOrderFull", matchKinds(want))
		verifAssert("C07.server.certRequestIffPolicy", certReqSent == (policy >= RequestClientCert || ecdhe))
		verifAssert("C07.server.noCertsWithoutRequest", certReqSent || ncli == 0)
		if ncli > 0 {
			verifAssert("C07.server.certificateVerifyChecked", vs.cvCalls == 1 && vs.cvOK)
			verifAssert("C07.server.certificateVerifyKey", vs.cvPub == crypto.PublicKey(c.peerCertificates[0].PublicKey))
			verifAssert("C07.server.certificateVerifyTranscript", vs.sawCV && bytes.Equal(vs.cvSeed, vg.wire[:vs.cvPos]))
			verifAssert("C07.server.chainVerifiedIffPolicy", (len(c.verifiedChains) > 0) == vs.chainOK)
		} else {
			verifAssert("C07.server.noVerifiedChainsWithoutCerts", len(c.verifiedChains) == 0)
		}
		verifAssert("C04.server.masterFromPremaster", len(vg.master) == 48 && bytes.Equal(vg.srvKey, vg.master) && bytes.Equal(vg.cliKey, vg.master))
		verifAssert("C10.server.newSessionIdFromRand", len(vs.sentSID) == 32)
		verifAssert("C10.server.newSessionStoredOnce", vg.puts == 1 && !vg.putNil[0] && vg.putVals[0] != nil && len(vg.putVals[0].masterSecret) == 48)
		verifAssert("C03.server.transcriptIsWireOrder", bytes.Equal(vg.cliSeed, vg.wire[:vg.finPos]))
		verifAssert("C04.server.finishedOverWholeTranscript", bytes.Equal(vg.cliSeed, vg.wire[:vg.finPos]))
	}
	verifAssert("C03.server.finishedMatchesAll12", len(vg.finIn) == 12 && len(vg.cliSum) == 12 && bytes.Equal(vg.finIn, vg.cliSum))
	verifAssert("C03.server.ccsBeforeFinished", vg.n >= 2 && vg.kinds[vg.n-2] == kCCS && vg.kinds[vg.n-1] == kFin)
	verifAssert("C08.server.oneCCSSent", vg.ccsSent == 1)
}
