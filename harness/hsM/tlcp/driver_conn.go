//go:build verif

package tlcp

func verifDriverConn(cfg *Config, isClient bool) *Conn {
	return &Conn{conn: &verifNullConn{}, config: cfg, isClient: isClient}
}

func verifDriverCookie(ch *clientHelloMsg) {}

const verifDatagramStack = false

func verifIsHelloVerifyRequest(msg handshakeMessage) bool { return false }
