//go:build verif

package tlcp

func verifDriverConn(cfg *Config, isClient bool) *Conn {
	return &Conn{conn: &verifNullConn{}, config: cfg, isClient: isClient}
}

func verifDriverCookie(ch *clientHelloMsg) {}

const verifDatagramStack = false

func verifIsHelloVerifyRequest(msg handshakeMessage) bool { return false }

func verifDriverWrite(c *Conn, data []byte)  {}
func verifDriverFlush(c *Conn) (int, error) { return 0, nil }
func verifDriverTimeout() error              { return nil }
func verifDriverWaiting(c *Conn)               {}
