//go:build verif

package tlcp

//verif:twin dtlcp

import (
	"bytes"
	"context"
	"crypto"
	"errors"
	"hash"
	"io"
	"net"
	"time"

	x509 "github.com/emmansun/gmsm/smx509"
)

// Endpoint driver, cut M (message level): the REAL clientHandshake state machine (clientHandshake, handshake,
// processServerHello, pickCipherSuite, doFullHandshake, establishKeys, readFinished, sendFinished, session
// handling) runs against a symbolic peer that chooses one of ten message kinds at every read.
//
//verif:replace Conn.readHandshake
//verif:replace Conn.readChangeCipherSpec
//verif:replace Conn.writeHandshakeRecord
//verif:replace Conn.writeChangeCipherRecord
//verif:replace Conn.flush
//verif:replace Conn.sendAlert
//verif:replace Conn.verifyServerCertificate
//verif:replacecall (*github.com/emmansun/gmsm/smx509.Certificate).Verify verif_x509_Verify
//verif:replace prfAndHashForVersion
//verif:replacecall crypto/hmac.New verif_hmac_New
//
//verif:assume cut M: readHandshake / readChangeCipherSpec / writeHandshakeRecord / writeChangeCipherRecord / flush / sendAlert are stubs: every read returns an arbitrary message kind with bounded arbitrary fields (or an error); messages carry 2 arbitrary raw bytes
//verif:assume cut M: verifySessionCertificates is the real function over an X.509 Verify stub with arbitrary verdicts (the options it passes are checked by the x509 group)
//verif:assume cut M: verifyServerCertificate is a stub with an arbitrary verdict (the real function is checked by the C02 x509 harness); key agreement is a stub with arbitrary verdicts (the real functions are checked by the kx harnesses)
//verif:assume E4/E5 (cut M): the transcript hash records its input; the PRF returns arbitrary bytes and its calls (secret, label, transcript at the call) are logged
//verif:assume E11: the session cache returns an arbitrary session (version TLCP or arbitrary, one of the four suites or arbitrary, 48-byte or empty master secret) or nothing; Put calls are logged

const (
	kErr = iota
	kSH
	kCert
	kSKX
	kCertReq
	kSHD
	kFin
	kCKE
	kCertVerify
	kCH
	kCCS = 100
)

var vg struct {
	kinds    [14]int // kinds consumed from the peer, in order (CCS included)
	n        int
	sent     [14]int // handshake message types sent
	nsent    int
	ccsSent  int
	skxOK    bool
	skxSeen  bool
	certsOK  bool
	alerts   int
	wire     []byte // every handshake message in wire order (marshalled form), both directions
	wireAt   [14]int
	hashed   []byte // what the transcript hash was fed
	finIn    []byte // verify_data of the peer's Finished as delivered
	srvSum   []byte // output of the "server finished" PRF call
	cliSum   []byte // output of the "client finished" PRF call
	lastSumInput []byte // transcript bytes at the latest Sum()
	srvSeed  []byte // transcript at that call
	srvKey   []byte
	cliSeed  []byte
	cliKey   []byte
	master   []byte // output of the "master secret" PRF call
	premast  []byte
	puts     int
	putKeys  [6]string
	putNil   [6]bool
	putVals  [6]*SessionState
	finPos   int // length of vg.wire before the peer's Finished
	keBlocks int
	hellosRead int
	shSID    []byte // session id of the ServerHello delivered
	shALPN   string // application protocol selected in the ServerHello delivered
	sessVerified int // X.509 verifications of recorded (session) certificates that succeeded
}

// datagram-stack ghost state (unused on the stream stack)
var vdg struct {
	datagrams     [][]byte
	timeouts      int
	sentAtTimeout int
	flightStart   int   // number of datagrams sent before the endpoint's current flight began
	script        []int // when set, the peer follows this script of message kinds instead of choosing
	scriptPos     int
	flushed       bool // the endpoint has just flushed a flight and not yet waited for the answer
	armedAtWait   []bool
}

func verifCat(ds [][]byte) []byte {
	var out []byte
	for _, d := range ds {
		out = append(out, d...)
	}
	return out
}

func vgNote(k int) {
	if vg.n >= 12 {
		verifAssume(false)
	}
	vg.kinds[vg.n] = k
	vg.n++
}

type verifAddr struct{}

func (verifAddr) Network() string { return "v" }
func (verifAddr) String() string  { return "peer" }

type verifNullConn struct{}

func (c *verifNullConn) Read(p []byte) (int, error)         { return 0, io.EOF }
func (c *verifNullConn) Write(p []byte) (int, error)        { return len(p), nil }
func (c *verifNullConn) Close() error                       { return nil }
func (c *verifNullConn) LocalAddr() net.Addr                { return verifAddr{} }
func (c *verifNullConn) RemoteAddr() net.Addr               { return verifAddr{} }
func (c *verifNullConn) SetDeadline(t time.Time) error      { return nil }
func (c *verifNullConn) SetReadDeadline(t time.Time) error  { return nil }
func (c *verifNullConn) SetWriteDeadline(t time.Time) error { return nil }

type verifRand struct{}

func (verifRand) Read(p []byte) (int, error) {
	copy(p, verifNondetBytes("rand", len(p)))
	return len(p), nil
}

// transcript hash: records what it is fed
type verifTranscript struct{}

func (h *verifTranscript) Write(p []byte) (int, error) {
	vg.hashed = append(vg.hashed, p...)
	return len(p), nil
}
func (h *verifTranscript) Sum(b []byte) []byte {
	vg.lastSumInput = append([]byte(nil), vg.hashed...)
	return append(b, verifNondetBytes("digest", 32)...) // the digest value is irrelevant here: the harness compares the hashed bytes themselves
}
func (h *verifTranscript) Reset()         { vg.hashed = nil }
func (h *verifTranscript) Size() int      { return 32 }
func (h *verifTranscript) BlockSize() int { return 64 }

func prfAndHashForVersion(version uint16, suite *cipherSuite) (func(result, secret, label, seed []byte), func() hash.Hash) {
	prf := func(result, secret, label, seed []byte) {
		out := verifNondetBytes("prf", len(result)) // arbitrary output; (secret, label, transcript) of every call are logged and compared
		copy(result, out)
		switch string(label) {
		case "server finished":
			vg.srvSum = append([]byte(nil), out...)
			vg.srvSeed = append([]byte(nil), vg.hashed...)
			vg.srvKey = append([]byte(nil), secret...)
		case "client finished":
			vg.cliSum = append([]byte(nil), out...)
			vg.cliSeed = append([]byte(nil), vg.hashed...)
			vg.cliKey = append([]byte(nil), secret...)
		case "master secret":
			vg.master = append([]byte(nil), out...)
			vg.premast = append([]byte(nil), secret...)
		case "key expansion":
			vg.keBlocks++
		}
	}
	return prf, func() hash.Hash { return &verifTranscript{} }
}

// HMAC (record MAC constructor, DTLCP cookie): arbitrary tags; nothing in the drivers depends on their value
type verifDriverHMAC struct{}

func (h *verifDriverHMAC) Write(p []byte) (int, error) { return len(p), nil }
func (h *verifDriverHMAC) Sum(b []byte) []byte         { return append(b, verifNondetBytes("hmac", 32)...) }
func (h *verifDriverHMAC) Reset()                      {}
func (h *verifDriverHMAC) Size() int                   { return 32 }
func (h *verifDriverHMAC) BlockSize() int              { return 64 }

func verif_hmac_New(f func() hash.Hash, key []byte) hash.Hash { return &verifDriverHMAC{} }

type verifSigner struct{}

func (verifSigner) Public() crypto.PublicKey { return nil }
func (verifSigner) Sign(r io.Reader, digest []byte, opts crypto.SignerOpts) ([]byte, error) {
	return verifNondetBytes("sig", 4), nil
}

type verifKA struct{}

func (verifKA) generateServerKeyExchange(*serverHandshakeState) (*serverKeyExchangeMsg, error) {
	if verifSplitInt("skxGen", 0, 1) == 0 {
		return nil, errors.New("cannot sign")
	}
	vs.skxMade++
	return &serverKeyExchangeMsg{key: verifNondetBytes("skxOut", 3)}, nil
}
func (verifKA) processClientKeyExchange(*serverHandshakeState, *clientKeyExchangeMsg) ([]byte, error) {
	if verifSplitInt("ckxVerdictServer", 0, 1) == 0 {
		return nil, errors.New("bad ckx")
	}
	return verifNondetBytes("premaster", 48), nil
}
func (verifKA) processServerKeyExchange(hs *clientHandshakeState, skx *serverKeyExchangeMsg) error {
	vg.skxSeen = true
	if verifSplitInt("skxVerdict", 0, 1) == 0 {
		return errors.New("bad skx")
	}
	vg.skxOK = true
	return nil
}
func (verifKA) generateClientKeyExchange(hs *clientHandshakeState) ([]byte, *clientKeyExchangeMsg, error) {
	if verifSplitInt("ckxVerdict", 0, 1) == 0 {
		return nil, nil, errors.New("ckx failed")
	}
	return verifNondetBytes("premaster", 48), &clientKeyExchangeMsg{ciphertext: verifNondetBytes("ckx", 3)}, nil
}

func rawOf(typ uint8) []byte {
	b := verifNondetBytes("raw", 2)
	return []byte{typ, b[0], b[1]}
}

func (c *Conn) readHandshake(transcript transcriptHash) (interface{}, error) {
	verifDriverWaiting(c)
	var k int
	if vdg.script != nil {
		if vdg.scriptPos >= len(vdg.script) {
			return nil, errors.New("end of script")
		}
		k = vdg.script[vdg.scriptPos]
		vdg.scriptPos++
	} else {
		k = verifSplitInt("kind", 0, 9)
	}
	if k == kErr {
		return nil, errors.New("read error")
	}
	if k == kCH && verifDatagramStack && vs.sentSID != nil {
		// datagram stack: a ClientHello arriving after the server's flight is a retransmission; the server
		// answers it by resending its flight and it is not part of the message sequence or of the transcript
		vg.hellosRead++
		if vg.hellosRead > 2 {
			verifAssume(false)
		}
		return &clientHelloMsg{raw: rawOf(typeClientHello)}, nil
	}
	vgNote(k)
	var m handshakeMessage
	switch k {
	case kSH:
		sh := &serverHelloMsg{raw: rawOf(typeServerHello), vers: verifNondetU16("sh.vers"), random: verifNondetBytes("sh.random", 32),
			cipherSuite: verifNondetU16("sh.suite"), compressionMethod: verifNondetByte("sh.comp")}
		switch verifSplitInt("sh.sid", 0, 2) {
		case 1:
			sh.sessionId = verifNondetBytes("sh.sid", 32)
		case 2:
			sh.sessionId = verifNondetBytes("sh.sid", 1)
		}
		if verifSplitInt("sh.alpn", 0, 1) == 1 {
			sh.alpnProtocol = string(verifNondetBytes("sh.alpn", 1))
		}
		vg.shALPN = sh.alpnProtocol
		vg.shSID = sh.sessionId
		m = sh
	case kCert:
		n := verifSplitInt("ncerts", 0, 3)
		cm := &certificateMsg{raw: rawOf(typeCertificate)}
		for i := 0; i < n; i++ {
			cm.certificates = append(cm.certificates, verifNondetBytes("cert", 1))
		}
		m = cm
	case kSKX:
		m = &serverKeyExchangeMsg{raw: rawOf(typeServerKeyExchange), key: verifNondetBytes("skx", 3)}
	case kCertReq:
		m = &certificateRequestMsg{raw: rawOf(typeCertificateRequest), certificateTypes: []byte{1, 64}}
	case kSHD:
		m = &serverHelloDoneMsg{}
		vdg.flightStart = len(vdg.datagrams) // the client's second flight follows
	case kFin:
		fm := &finishedMsg{raw: rawOf(typeFinished), verifyData: verifNondetBytes("fin", verifSplitInt("finlen", 11, 12))}
		vg.finIn = fm.verifyData
		vg.finPos = len(vg.wire)
		m = fm
	case kCKE:
		m = &clientKeyExchangeMsg{raw: rawOf(typeClientKeyExchange)}
	case kCertVerify:
		m = &certificateVerifyMsg{raw: rawOf(typeCertificateVerify)}
	default:
		ch := &clientHelloMsg{raw: rawOf(typeClientHello), vers: verifNondetU16("ch.vers"), random: verifNondetBytes("ch.random", 32),
			compressionMethods: verifNondetBytes("ch.comp", 1)}
		if verifSplitInt("ch.sid", 0, 1) == 1 {
			ch.sessionId = verifNondetBytes("ch.sid", 32)
		}
		// offered suites: a case split over representative lists (concrete ids keep suite selection solver-free)
		switch verifSplitInt("ch.suites", 0, verifBound(2, 4)) {
		case 0:
			ch.cipherSuites = []uint16{ECC_SM4_GCM_SM3}
		case 1:
			ch.cipherSuites = []uint16{ECDHE_SM4_GCM_SM3}
		case 2:
			ch.cipherSuites = []uint16{0x1234}
		case 3:
			ch.cipherSuites = []uint16{ECC_SM4_CBC_SM3, ECDHE_SM4_CBC_SM3}
		case 4:
			ch.cipherSuites = []uint16{0x1234, ECC_SM4_GCM_SM3, ECC_SM4_CBC_SM3, ECDHE_SM4_GCM_SM3, ECDHE_SM4_CBC_SM3}
		}
		vg.hellosRead++
		if vg.hellosRead > 2 {
			verifAssume(false) // at most two ClientHellos per run (datagram stack: cookie round trip)
		}
		verifDriverCookie(ch) // datagram stack: the hello may carry a cookie (the cookie phase itself is checked by the hsMd group)
		m = ch
	}
	if k == kCertVerify {
		vs.cvPos = len(vg.wire)
		vs.sawCV = true
	}
	data, _ := m.marshal()
	vg.wire = append(vg.wire, data...)
	if transcript != nil {
		transcript.Write(data)
	}
	return m, nil
}

func (c *Conn) readChangeCipherSpec() error {
	verifDriverWaiting(c)
	hi := 1
	if verifDatagramStack && c.isClient && vdg.timeouts == 0 {
		hi = 2 // datagram stack: the read may time out once (the peer's flight, or ours, was lost)
	}
	switch verifSplitInt("ccs", 0, hi) {
	case 0:
		return errors.New("no ccs")
	case 2:
		vdg.timeouts++
		vdg.sentAtTimeout = len(vdg.datagrams)
		return verifDriverTimeout()
	}
	vgNote(kCCS)
	if err := c.in.changeCipherSpec(); err != nil {
		return err
	}
	return nil
}

func (c *Conn) writeHandshakeRecord(msg handshakeMessage, transcript transcriptHash) (int, error) {
	if vg.nsent < 12 {
		vg.sent[vg.nsent] = int(msg.messageType())
		vg.nsent++
	}
	if verifIsHelloVerifyRequest(msg) {
		// datagram stack: the cookie round trip (first ClientHello, HelloVerifyRequest) is not part of the
		// handshake transcript; the message sequence starts again with the second ClientHello
		vg.wire, vg.n = nil, 0
		return 0, nil
	}
	if sh, ok := msg.(*serverHelloMsg); ok {
		vs.sentSID = sh.sessionId
		sh.raw = rawOf(typeServerHello) // the hello codecs are checked by C14; here a message is 3 opaque bytes
	}
	if ch, ok := msg.(*clientHelloMsg); ok && ch.raw == nil {
		ch.raw = rawOf(typeClientHello)
	}
	data, err := msg.marshal()
	if err != nil {
		return 0, err
	}
	vg.wire = append(vg.wire, data...)
	if transcript != nil {
		transcript.Write(data)
	}
	verifDriverWrite(c, data)
	return len(data), nil
}
func (c *Conn) writeChangeCipherRecord() error {
	vg.ccsSent++
	verifDriverWrite(c, []byte{20, 1})
	return c.out.changeCipherSpec()
}
func (c *Conn) flush() (int, error)       { return verifDriverFlush(c) }
func (c *Conn) sendAlert(err alert) error { vg.alerts++; return err }

func (c *Conn) verifyServerCertificate(certificates [][]byte) error {
	if len(certificates) < 2 {
		return errors.New("need two certificates")
	}
	if verifSplitInt("x509Verdict", 0, 1) == 0 {
		return errors.New("verification failed")
	}
	vg.certsOK = true
	c.peerCertificates = make([]*x509.Certificate, len(certificates))
	for i := range c.peerCertificates {
		c.peerCertificates[i] = &x509.Certificate{Raw: certificates[i]}
	}
	return nil
}

// X.509 verification of the certificates recorded with a session (called by the REAL verifySessionCertificates):
// arbitrary verdict per certificate; the resumed session counts as checked when both were verified
func verif_x509_Verify(c *x509.Certificate, opts x509.VerifyOptions) ([][]*x509.Certificate, error) {
	if verifSplitInt("x509VerdictResumed", 0, 1) == 0 {
		return nil, errors.New("verification of a recorded certificate failed")
	}
	vg.sessVerified++
	if vg.sessVerified >= 2 {
		vg.certsOK = true
	}
	return [][]*x509.Certificate{{c}}, nil
}

// session cache stub (E11)
type verifCache struct {
	have bool
	sess *SessionState
	lazy func() *SessionState // server driver: the cache content is chosen only when the cache is consulted
	gets int
}

func (sc *verifCache) Get(key string) (*SessionState, bool) {
	sc.gets++
	if sc.lazy != nil && sc.gets == 1 {
		sc.sess = sc.lazy()
		sc.have = sc.sess != nil
	}
	if !sc.have {
		return nil, false
	}
	return sc.sess, true
}
func (sc *verifCache) Put(key string, cs *SessionState) {
	if vg.puts < 6 {
		vg.putKeys[vg.puts] = key
		vg.putNil[vg.puts] = cs == nil
		vg.putVals[vg.puts] = cs
	}
	vg.puts++
}

func stubSuites() {
	for _, id := range []uint16{ECC_SM4_GCM_SM3, ECC_SM4_CBC_SM3, ECDHE_SM4_GCM_SM3, ECDHE_SM4_CBC_SM3} {
		cs := cipherSuites[id]
		cs.ka = func(uint16) keyAgreementProtocol { return verifKA{} }
		if cs.aead != nil {
			cs.aead = func(key, nonce []byte) aead { return &prefixNonceAEAD{} }
		} else {
			cs.cipher = func(key, iv []byte, isRead bool) interface{} { return 1 }
			cs.mac = func(key []byte) hash.Hash { return &verifTranscript{} }
		}
	}
}

func matchKinds(w []int) bool {
	if vg.n != len(w) {
		return false
	}
	for i := range w {
		if vg.kinds[i] != w[i] {
			return false
		}
	}
	return true
}

// C02 / C03 / C08 / C10 / C12 — the real client handshake against a symbolic peer.
//
//verif:harness props=C02,C03,C08,C10,C12,C09,C01,C04 twinprops=C02,C03,C08,C10,C19,C01,C04 paths=400000 tpaths=4000000 depth=300 reach=completedFull,completedResumed,failed
func VerifHarness_client_handshake() {
	stubSuites()
	cache := &verifCache{}
	cfg := &Config{Rand: verifRand{}, Time: func() time.Time { return time.Time{} }, SessionCache: cache}
	ncert := verifSplitInt("clientCerts", 0, 2)
	// ALPN is offered in the runs with 0 or 2 client key pairs and not offered in the runs with 1 (the two choices
	// are independent in the code; coupling them keeps the number of paths down)
	if ncert != 1 {
		cfg.NextProtos = []string{"a"}
	}
	for i := 0; i < ncert; i++ {
		cfg.Certificates = append(cfg.Certificates, Certificate{Certificate: [][]byte{{1}}, PrivateKey: verifSigner{}})
	}
	var offered *SessionState
	if verifSplitInt("haveSession", 0, 1) == 1 {
		cache.have = true
		// (the cached session's id is 32 bytes, or empty: what a client holds after a server answered with an
		// empty session id, "not resumable")
		sid := make([]byte, 0)
		if verifSplitInt("sess.idLen32", 0, 1) == 1 {
			sid = verifNondetBytes("sess.id", 32)
		}
		offered = &SessionState{sessionId: sid, vers: verifNondetU16("sess.vers"), cipherSuite: verifNondetU16("sess.suite"),
			masterSecret: verifNondetBytes("sess.master", 48*verifSplitInt("sess.hasMaster", 0, 1)),
			peerCertificates: []*x509.Certificate{{Raw: []byte{1}}, {Raw: []byte{2}}}}
		cache.sess = offered
	}
	c := verifDriverConn(cfg, true)
	err := c.clientHandshake(context.Background())
	if err != nil {
		verifReach("failed")
		verifAssert("C12.client.notCompleteOnError", !c.handshakeComplete())
		// C10: a session that was offered and whose handshake failed is removed from the cache under both keys
		if offered != nil {
			delDst, delID := false, false
			for i := 0; i < vg.puts && i < 6; i++ {
				if vg.putNil[i] && vg.putKeys[i] == "peer" {
					delDst = true
				}
				if vg.putNil[i] && vg.putKeys[i] != "peer" {
					delID = true
				}
			}
			verifAssert("C10.client.failedSessionDropped", delDst && delID)
		}
		// C10: no session created by a failed handshake stays cached (every store is followed by a delete;
		// keys are not compared here: they are hex strings of symbolic bytes)
		live := 0
		for i := 0; i < vg.puts && i < 6; i++ {
			if !vg.putNil[i] {
				live++
			} else if live > 0 {
				live--
			}
		}
		verifAssert("C10.client.failedHandshakeCachesNothing", live == 0)
		return
	}
	verifAssert("C12.client.statusSet", c.handshakeComplete())
	resumed := c.didResume
	if resumed {
		verifReach("completedResumed")
		verifAssert("C08.client.legalOrderResumed", matchKinds([]int{kSH, kCCS, kFin}))
		verifAssert("C10.client.resumedOnlyIfOffered", offered != nil)
		// a handshake counts as resumed only when the server echoed a NON-EMPTY session id equal to the offered one
		// (an empty id means "full handshake, not resumable": treating empty == empty as an echo makes the client wait
		// for ChangeCipherSpec while the server sends its certificates — the two honest endpoints never finish)
		echoed := offered != nil && len(vg.shSID) > 0 && bytes.Equal(vg.shSID, offered.sessionId)
		verifAssert("C10.client.resumedOnlyOnEchoedNonEmptyId", echoed)
		verifAssert("C01.client.resumedOnlyOnEchoedNonEmptyId", echoed)
		if offered != nil {
			verifAssert("C10.client.resumedSameVersionAndSuite", offered.vers == c.vers && offered.cipherSuite == c.cipherSuite)
			verifAssert("C10.client.resumedUsesCachedMaster", len(offered.masterSecret) == 48 && bytes.Equal(vg.srvKey, offered.masterSecret) && bytes.Equal(vg.cliKey, offered.masterSecret))
			verifAssert("C10.client.resumedKeepsPeerIdentity", len(c.peerCertificates) == 2 && c.peerCertificates[0] == offered.peerCertificates[0])
			verifAssert("C10.client.freshKeys", vg.keBlocks == 1)
			// C02(d): the certificates recorded with the session were checked under the configuration in use
			verifAssert("C02.client.resumedCertificatesVerified", vg.certsOK)
		}
	} else {
		verifReach("completedFull")
		verifAssert("C08.client.legalOrderFull", matchKinds([]int{kSH, kCert, kSKX, kSHD, kCCS, kFin}) || matchKinds([]int{kSH, kCert, kSKX, kCertReq, kSHD, kCCS, kFin}))
		verifAssert("C02.client.certificatesVerified", vg.certsOK)
		verifAssert("C02.client.keyExchangeSignatureVerified", vg.skxSeen && vg.skxOK)
		verifAssert("C04.client.masterFromPremaster", len(vg.master) == 48 && bytes.Equal(vg.srvKey, vg.master) && bytes.Equal(vg.cliKey, vg.master))
		// C10: the new session is stored under both keys with a private copy of the master secret
		stored := 0
		for i := 0; i < vg.puts && i < 6; i++ {
			if !vg.putNil[i] {
				stored++
				verifAssert("C10.client.newSessionMaster", vg.putVals[i] != nil && len(vg.putVals[i].masterSecret) == 48)
			}
		}
		verifAssert("C10.client.newSessionStoredTwice", stored == 2)
	}
	// C02(c) / C03: the accepted Finished is the full 12-byte PRF output over the transcript of every
	// handshake message in wire order up to (not including) the peer's Finished
	verifAssert("C02.client.finishedMatchesAll12", len(vg.finIn) == 12 && len(vg.srvSum) == 12 && bytes.Equal(vg.finIn, vg.srvSum))
	verifAssert("C03.client.transcriptIsWireOrder", bytes.Equal(vg.srvSeed, vg.wire[:vg.finPos]) || (resumed && bytes.Equal(vg.srvSeed, vg.wire[:vg.finPos])))
	// C04: Finished = PRF(master, label, hash of ALL handshake messages so far) — the same fact under the key-schedule
	// property (an endpoint pair that both leave a message out still agree with each other, not with the standard)
	verifAssert("C04.client.finishedOverWholeTranscript", bytes.Equal(vg.srvSeed, vg.wire[:vg.finPos]))
	// C01: the application protocol the client reports is the one the server selected (full and abbreviated alike)
	verifAssert("C01.client.alpnIsWhatTheServerSelected", c.clientProtocol == vg.shALPN)
	verifAssert("C03.client.ccsBeforeFinished", vg.n >= 2 && vg.kinds[vg.n-2] == kCCS && vg.kinds[vg.n-1] == kFin)
	verifAssert("C08.client.oneCCSSent", vg.ccsSent == 1)
	if verifDatagramStack && vdg.timeouts == 1 && !resumed {
		// (in an abbreviated handshake the client waits for the server's flight first and has nothing of its own to
		// resend except the ClientHello; the server, which is one flight ahead, retransmits)
		// C19: a timeout while waiting for the peer's last flight makes the client resend its own last flight,
		// byte for byte, as the next datagram
		// — the WHOLE flight (Certificate*, ClientKeyExchange, CertificateVerify*, ChangeCipherSpec, Finished), whatever
		// the packing into datagrams: any of its datagrams may be the one that was lost
		k := vdg.sentAtTimeout
		verifAssert("C19.react.timeoutResendsLastFlight", k >= 1 && len(vdg.datagrams) > k && vdg.flightStart < k &&
			bytes.Equal(verifCat(vdg.datagrams[k:]), verifCat(vdg.datagrams[vdg.flightStart:k])))
	}
}
